package mon

import (
	"fmt"
	"math/rand"
	"path/filepath"
	"sort"
	"strings"

	"verif/cfg"
	"verif/cli"
	"verif/gen"
	"verif/probe"
	"verif/ref"
	"verif/work"
)

func init() { Register("C06", "exploration", checkC06) }

func stripSigils(s string) string { return strings.Trim(s, "@%") }

// lineMatches: does a diagnostic name the missing name and the referrer of the dangling reference?
func lineMatches(line string, d ref.Reference) bool {
	names := cli.Names(line)
	if len(names) == 0 {
		return false
	}
	if stripSigils(names[len(names)-1]) != d.Name {
		return false
	}
	switch d.FromKind {
	case "decorator":
		if strings.Contains(line, d.From) { // "#i"
			return true
		}
		for _, n := range names[:len(names)-1] {
			if n == d.DecTag {
				return true
			}
		}
		return false
	default:
		for _, n := range names[:len(names)-1] {
			if stripSigils(n) == d.From {
				return true
			}
		}
	}
	return false
}

func danglingKey(d ref.Reference) string {
	return fmt.Sprintf("%s %s -> %s %s", d.FromKind, d.From, d.Kind, d.Name)
}

// judgeDangling compares the two "Missing …" sections with the reference dangling set.
func judgeDangling(c *Ctx, conf *cfg.Config, run *cli.Run, files map[string]string, otherDefects bool) {
	dang := ref.Dangling(conf)
	var wantP, wantS []ref.Reference
	for _, d := range dang {
		if d.Kind == "param" {
			wantP = append(wantP, d)
		} else {
			wantS = append(wantS, d)
		}
	}
	check := func(section string, want []ref.Reference, kind string) {
		sec := run.Rep.Section(section)
		if sec == nil {
			if run.Rep.Section("Validate output") != nil {
				c.Inconclusive("the report lacks the step " + section + ": its diagnostics cannot be attributed")
			}
			return
		}
		lines := sec.Errors
		for _, d := range want {
			found := false
			for _, ln := range lines {
				found = found || lineMatches(ln, d)
			}
			if !found {
				c.Violate("dangling-not-reported:"+kind+":"+d.FromKind+":"+d.Pos, fmt.Sprintf("dangling reference %s (position %s) is not reported\n%s diagnostics: %q", danglingKey(d), d.Pos, section, lines), files)
			}
		}
		for _, ln := range lines {
			ok := false
			for _, d := range want {
				ok = ok || lineMatches(ln, d)
			}
			if !ok {
				c.Violate("declared-reported-missing:"+kind, fmt.Sprintf("diagnostic %q does not correspond to any dangling reference (declared names incl. todo must not be reported)\nexpected dangling: %v", ln, keysOfRefs(want)), files)
			}
		}
		if (len(want) > 0) != (sec.Status == "fail") {
			c.Violate("missing-step-verdict:"+kind, fmt.Sprintf("step %q is %s but %d dangling references exist", section, sec.Status, len(want)), files)
		}
	}
	if run.Rep.Section("Validate output") == nil {
		// rejected earlier (Compile): nothing to compare, unless the generator meant the config to reach validation
		if !otherDefects {
			c.Violate("rejected-before-validation:"+sigWords(strings.Join(run.Rep.List, " ")), "configuration did not reach output validation:\n"+run.Res.Stdout, files)
		}
		return
	}
	check("Missing parameters", wantP, "param")
	check("Missing services", wantS, "service")
	if !otherDefects {
		if (len(dang) == 0) != (run.Res.Exit == 0) {
			c.Violate("acceptance", fmt.Sprintf("%d dangling references, exit %d\n%s", len(dang), run.Res.Exit, run.Res.Stdout), files)
		}
	}
}

func keysOfRefs(rs []ref.Reference) []string {
	var out []string
	for _, r := range rs {
		out = append(out, danglingKey(r))
	}
	sort.Strings(out)
	return out
}

// c06Mutations yields mutated configurations: declarations removed, renamed or turned into todo placeholders.
func c06Mutations(r *rand.Rand, base *cfg.Config, maxK int, sampled int) []*cfg.Config {
	type mut struct {
		kind string // del-param ren-param todo-param del-svc ren-svc todo-svc
		name string
	}
	var all []mut
	for _, p := range base.Params {
		all = append(all, mut{"del-param", p.K}, mut{"ren-param", p.K}, mut{"todo-param", p.K})
	}
	for _, s := range base.Services {
		all = append(all, mut{"del-svc", s.Name}, mut{"ren-svc", s.Name}, mut{"todo-svc", s.Name})
	}
	apply := func(ms []mut) *cfg.Config {
		c := base.Clone()
		for _, m := range ms {
			switch m.kind {
			case "del-param", "ren-param", "todo-param":
				for i := range c.Params {
					if c.Params[i].K != m.name {
						continue
					}
					switch m.kind {
					case "del-param":
						c.Params = append(c.Params[:i:i], c.Params[i+1:]...)
					case "ren-param":
						c.Params[i].K = m.name + "X"
					default:
						c.Params[i].V = cfg.Str(`%todo("tbd")%`)
					}
					break
				}
			default:
				for i := range c.Services {
					if c.Services[i].Name != m.name {
						continue
					}
					switch m.kind {
					case "del-svc":
						c.Services = append(c.Services[:i:i], c.Services[i+1:]...)
					case "ren-svc":
						c.Services[i].Name = m.name + "X"
					default:
						c.Services[i] = cfg.Service{Name: m.name, Todo: cfg.P(true)}
					}
					break
				}
			}
		}
		return &c
	}
	var out []*cfg.Config
	for _, m := range all {
		out = append(out, apply([]mut{m}))
	}
	// whole sections gone: no parameter is declared at all (the references stay), every parameter renamed, no service declared
	// (decorator arguments still refer to them)
	for _, kind := range []string{"del-param", "ren-param", "del-svc"} {
		var ms []mut
		for _, m := range all {
			if m.kind == kind {
				ms = append(ms, m)
			}
		}
		if len(ms) > 0 {
			out = append(out, apply(ms))
		}
	}
	for k := 0; k < sampled; k++ {
		n := 2 + r.Intn(maxK-1)
		var ms []mut
		used := map[string]bool{}
		// one mutation per declaration: bounded by the number of distinct names (and by a fixed number of draws)
		for tries := 0; len(ms) < n && len(used) < len(all)/3 && tries < 200; tries++ {
			m := all[r.Intn(len(all))]
			if used[m.name] {
				continue
			}
			used[m.name] = true
			ms = append(ms, m)
		}
		if len(ms) == 0 {
			continue
		}
		out = append(out, apply(ms))
	}
	return out
}

func checkC06(c *Ctx) error {
	c.Rule = "seeded base configurations with references in every position (parameter chunk, inside multi-chunk patterns, after %%, constructor argument, call argument, field value, decorator argument for both %param% and @service), mutated by removing, renaming or todo-marking each declaration (singles exhaustively, k-subsets k<=4 sampled) and by injecting fresh dangling references; the 'Missing parameters' / 'Missing services' diagnostics are compared as sets of (referrer, missing name) pairs with the reference 'references minus declarations'; accepted iff the set is empty; accepted configurations are compiled and every service and parameter is fetched: no run-time error may say 'does not exist'. distinct = distinct configuration; non-trivial = at least one reference whose target was touched by a mutation"
	c.Assumptions = []string{"a diagnostic names a reference when the missing name is its last quoted/sigil name and the referrer (parameter, service, decorator index or tag) appears before it", "multiplicity of diagnostics is not judged"}
	w := c.W
	bases := c.Pick(40, 800)
	var jobs []*cfg.Config
	for b := 0; b < bases; b++ {
		r := rand.New(rand.NewSource(c.Seed*48271 + int64(b)))
		o := gen.DefaultOpts()
		o.Scopes = false
		o.NonFinite = false
		o.MaxServices = 5
		base := gen.Behaviour(r, o)
		jobs = append(jobs, base)
		muts := c06Mutations(r, base, 4, c.Pick(12, 40))
		jobs = append(jobs, muts...)
		for k := 0; k < 4; k++ {
			m := base.Clone()
			for j := 0; j <= k; j++ {
				gen.Inject(r, &m, []string{"missing-param", "missing-service", "missing-mixed"}[r.Intn(3)], j)
			}
			jobs = append(jobs, &m)
		}
		// many dangling references at once (12-30): every one of them is reported
		{
			m := base.Clone()
			for j := 0; j < 12+r.Intn(19); j++ {
				gen.Inject(r, &m, []string{"missing-param", "missing-service", "missing-mixed"}[r.Intn(3)], j)
			}
			jobs = append(jobs, &m)
		}
	}
	// pairs (referrer, name) whose texts concatenate to the same string: referrer `mailer` with the declared `transport.dsn`
	// next to referrer `mailer.transport` with the undeclared `dsn` - for every separator names may contain, as services,
	// as parameters and as decorator tags
	for _, sep := range []string{".", "-", "_"} {
		for variant := 0; variant < 2; variant++ {
			conf := &cfg.Config{Meta: cfg.Meta{Pkg: cfg.P("gen"), Imports: []cfg.KS{{K: "pa", V: "fixt/pa"}}}}
			decl, undecl := "transport"+sep+"dsn", "dsn"
			r1, r2 := "mailer", "mailer"+sep+"transport"
			if variant == 1 {
				// the dangling one is the one that sorts first
				r1, r2 = "mailer"+sep+"transport", "mailer"
				decl, undecl = "dsn", "transport"+sep+"dsn"
			}
			conf.Params = []cfg.KV{{K: decl, V: cfg.Str("x")}, {K: r1, V: cfg.Str("a%" + decl + "%")}, {K: r2, V: cfg.Str("b%" + undecl + "%")}}
			conf.Services = []cfg.Service{
				{Name: decl, Constructor: cfg.P("pa.New")},
				{Name: r1, Constructor: cfg.P("pa.New"), Args: []cfg.Val{cfg.Str("%" + decl + "%"), cfg.Str("@" + decl)}},
				{Name: r2, Constructor: cfg.P("pa.New"), Args: []cfg.Val{cfg.Str("%" + undecl + "%"), cfg.Str("@" + undecl)}},
			}
			jobs = append(jobs, conf)
		}
	}
	c.Set("configurations", len(jobs))
	accepted := make([]bool, len(jobs))
	Par(len(jobs), 16, func(i int) {
		conf := jobs[i]
		dir := w.TempDir("c06")
		yaml := conf.YAML()
		_ = work.WriteFile(filepath.Join(dir, "in.yaml"), []byte(yaml))
		out := filepath.Join(dir, "out.go")
		var run cli.Run
		if i%4 == 1 {
			// the output path already holds what the tool generated a moment ago for another, valid configuration
			var ok bool
			if run, ok = cli.DoAfter(w, "", nil, dir, out, "build", "-i", "in.yaml", "-o", out); ok {
				c.Add("runs_over_an_earlier_generated_output", 1)
			}
		} else if i%8 == 3 {
			// the configuration arrives through a named pipe (next to an empty one in a regular file)
			var seen bool
			if run, seen = cli.DoPiped(w, "", nil, dir, out, "in.yaml", yaml, "build", "-i", "in.yaml", "-o", out); seen {
				c.Add("runs_with_the_configuration_read_from_a_pipe", 1)
			} else {
				c.Add("runs_with_a_pipe_the_tool_did_not_read_completely", 1)
			}
		} else {
			run = cli.Do(w, "", nil, dir, out, "build", "-i", "in.yaml", "-o", out)
		}
		files := map[string]string{"input/in.yaml": yaml, "stdout.txt": run.Res.Stdout}
		for _, b := range run.Contract() {
			c.Side("C10,C12", "cli-contract:"+sigWords(b), b, files)
		}
		d := ref.Dangling(conf)
		c.Eval(yaml, len(d) > 0 || len(ref.References(conf)) > 2)
		c.Add("dangling_references_expected", len(d))
		pos := map[string]bool{}
		for _, x := range d {
			pos[x.FromKind+"/"+x.Pos+"/"+x.Kind] = true
		}
		for p := range pos {
			c.Add("position:"+p, 1)
		}
		judgeDangling(c, conf, &run, files, false)
		accepted[i] = run.Res.Exit == 0
		if i == 5 {
			c.Sample(map[string]any{"config": yaml, "expected_dangling": keysOfRefs(d), "missing_parameters": run.Rep.ErrorsOf("Missing parameters"), "missing_services": run.Rep.ErrorsOf("Missing services")})
		}
	})
	// run-time half: accepted configurations never fail with "does not exist"
	lab, err := probe.NewLab(w)
	if err != nil {
		return err
	}
	var units []*probe.Unit
	for i, conf := range jobs {
		if !accepted[i] || len(units) >= c.Pick(150, 1500) {
			continue
		}
		r := rand.New(rand.NewSource(int64(i)))
		units = append(units, &probe.Unit{ID: idOf(i), Cfg: conf, Files: []probe.File{{Name: "gontainer.yaml", Content: conf.YAML()}}, Ops: StdOps(conf, r, false)})
	}
	if err := runUnits(c, lab, units, false); err != nil {
		return err
	}
	for _, u := range units {
		if !u.Compiled {
			continue
		}
		for i, r := range u.Results {
			c.Add("runtime_ops_observed", 1)
			if strings.Contains(r.Err, "does not exist") || strings.Contains(r.Panic, "does not exist") {
				op := u.Ops[i]
				if op.Op == "param" || op.Op == "get" || op.Op == "getctx" || op.Op == "tagged" || op.Op == "getter" || op.Op == "getterctx" {
					// fetching an environment variable that is not set also says "does not exist": only container lookups count
					// (the text is in Err for the error-returning accessors and in Panic for the Must variants)
					if txt := r.Err + r.Panic; strings.Contains(txt, "environment variable") && !strings.Contains(txt, "param does not exist") && !strings.Contains(txt, "service does not exist") {
						continue
					}
					c.Violate("runtime-does-not-exist", fmt.Sprintf("unit %s op %s %s: accepted configuration fails at run time: %s%s", u.ID, op.Op, op.Name, r.Err, r.Panic), unitFiles(u))
				}
			}
		}
	}
	return nil
}
