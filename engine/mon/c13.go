package mon

import (
	"fmt"
	"path/filepath"
	"sort"
	"strings"

	"verif/cfg"
	"verif/cli"
	"verif/probe"
	"verif/ref"
	"verif/work"
)

func init() { Register("C13", "exploration", checkC13) }

// goTypeString renders a declared service type the way reflect prints it.
func goTypeString(conf *cfg.Config, t *string) string {
	if t == nil {
		return "interface {}"
	}
	im := ref.NewImports(conf)
	r := im.ParseType(*t)
	short := ""
	if r.Pkg == "" {
		short = "main"
		if conf.Meta.Pkg != nil {
			short = *conf.Meta.Pkg
		}
	} else {
		short = FixtMap()[r.Pkg]
	}
	s := short + "." + r.Sym
	if r.Ptr {
		s = "*" + s
	}
	return s
}

// expectedGetterMethods lists the methods the statement of C13 gives the container type.
func expectedGetterMethods(conf *cfg.Config) []string {
	var out []string
	for i := range conf.Services {
		s := &conf.Services[i]
		if s.IsTodo() || s.Getter == nil || *s.Getter == "" {
			continue
		}
		t := goTypeString(conf, s.Type)
		g := *s.Getter
		out = append(out, g+" func() ("+t+", error)", g+"InContext func(context.Context) ("+t+", error)")
		if HasMust(conf, s) {
			out = append(out, "Must"+g+" func() "+t, "Must"+g+"InContext func(context.Context) "+t)
		}
	}
	sort.Strings(out)
	return out
}

// judgeAPI compares the reflected method set of *T with runtime API ∪ expected getters.
func judgeAPI(c *Ctx, u *probe.Unit) bool {
	var api *probe.API
	for _, r := range u.Results {
		if r.API != nil {
			api = r.API
		}
	}
	if api == nil {
		return false
	}
	want := map[string]bool{}
	for _, m := range api.Runtime {
		want[m] = true
	}
	for _, m := range expectedGetterMethods(u.Cfg) {
		want[m] = true
	}
	got := map[string]bool{}
	for _, m := range api.Methods {
		got[m] = true
	}
	var missing, extra []string
	for m := range want {
		if !got[m] {
			missing = append(missing, m)
		}
	}
	for m := range got {
		if !want[m] {
			extra = append(extra, m)
		}
	}
	sort.Strings(missing)
	sort.Strings(extra)
	files := unitFiles(u)
	if len(missing) > 0 {
		c.Violate("api-method-missing:"+methodClass(missing[0]), fmt.Sprintf("unit %s: generated type lacks %v\nmethods: %v", u.ID, missing, api.Methods), files)
	}
	if len(extra) > 0 {
		c.Violate("api-method-unexpected:"+methodClass(extra[0]), fmt.Sprintf("unit %s: generated type has unexpected %v", u.ID, extra), files)
	}
	wantType := "*" + u.PkgName() + "." + u.TypeName()
	if api.Type != wantType {
		c.Violate("api-type-name", fmt.Sprintf("unit %s: container type is %s, expected %s", u.ID, api.Type, wantType), files)
	}
	return true
}

// methodClass: Must…InContext / Must… / …InContext / getter, for stable signatures
func methodClass(m string) string {
	name := strings.Fields(m)[0]
	cl := "getter"
	switch {
	case strings.HasPrefix(name, "Must") && strings.HasSuffix(name, "InContext"):
		cl = "must-in-context"
	case strings.HasPrefix(name, "Must"):
		cl = "must"
	case strings.HasSuffix(name, "InContext"):
		cl = "in-context"
	}
	return cl
}

type c13cell struct {
	getter   bool
	typ      string // none ptr val iface
	must     string // unset true false
	defMust  string
	names    string // set, partial, unset
}

func tri(s string) *bool {
	switch s {
	case "true":
		return cfg.P(true)
	case "false":
		return cfg.P(false)
	}
	return nil
}

func (cell c13cell) config(variant int) *cfg.Config {
	conf := &cfg.Config{Meta: cfg.Meta{Imports: []cfg.KS{{K: "pa", V: "fixt/pa"}}}}
	switch cell.names {
	case "set":
		conf.Meta.Pkg, conf.Meta.ContainerType, conf.Meta.ContainerConstructor = cfg.P("gen"), cfg.P("Ctr"), cfg.P("NewCtr")
	case "partial":
		// every name has its own default: main / Gontainer / NewGontainer, whatever the other two are
		conf.Meta.Pkg = cfg.P("gen")
		switch (variant / 3) % 3 {
		case 1:
			conf.Meta.ContainerType = cfg.P("Registry")
		case 2:
			conf.Meta.ContainerConstructor = cfg.P("BuildIt")
		}
	case "unset":
		switch (variant / 3) % 3 {
		case 1:
			conf.Meta.ContainerType = cfg.P("Registry")
		case 2:
			conf.Meta.ContainerConstructor = cfg.P("BuildIt")
		}
	}
	conf.Meta.DefaultMustGetter = tri(cell.defMust)
	pkg := []string{"pa", `"fixt/pb"`, "fixt/deep/pa", `"."`}[variant%4]
	mk := func(name, getter string, fail bool) cfg.Service {
		s := cfg.Service{Name: name}
		switch cell.typ {
		case "ptr":
			s.Constructor = cfg.P(pkg + ".New")
			s.Type = cfg.P("*" + pkg + ".Obj")
		case "val":
			s.Constructor = cfg.P(pkg + ".NewVal")
			s.Type = cfg.P(pkg + ".Obj")
		case "iface":
			s.Constructor = cfg.P(pkg + ".New")
			s.Type = cfg.P(pkg + ".Iface")
		default:
			s.Constructor = cfg.P(pkg + ".New")
		}
		if fail {
			s.Constructor = cfg.P(pkg + ".NewErr")
			s.Args = []cfg.Val{cfg.Str("fail")}
			if cell.typ == "val" {
				// a failing value-typed service: constructor returns (*Obj, error); declare the pointer type instead
				s.Type = cfg.P("*" + pkg + ".Obj")
			}
		}
		if cell.getter {
			s.Getter = cfg.P(getter)
		}
		s.MustGetter = tri(cell.must)
		return s
	}
	conf.Services = []cfg.Service{mk("svc", "GetSvc", false), mk("bad", "FetchBad", true), {Name: "plain", Constructor: cfg.P(pkg + ".New")}}
	switch variant % 3 {
	case 1: // the in-context accessors must really use the context: a contextual service has one instance per context
		conf.Services[0].Scope = cfg.P("contextual")
	case 2:
		conf.Services[0].Scope = cfg.P("non_shared")
	}
	if cell.getter {
		// the default is per configuration, an explicit setting per service: a service that says the opposite of the default
		// (sorting first) must not change what a later one without a setting of its own gets
		opposite := cell.defMust != "true"
		conf.Services = append(conf.Services,
			cfg.Service{Name: "aaFirst", Constructor: cfg.P(pkg + ".New"), Getter: cfg.P("GetAaFirst"), MustGetter: cfg.P(opposite)},
			cfg.Service{Name: "mmMiddle", Constructor: cfg.P(pkg + ".New"), Getter: cfg.P("GetMmMiddle"), MustGetter: cfg.P(!opposite)},
			cfg.Service{Name: "zzLast", Constructor: cfg.P(pkg + ".New"), Getter: cfg.P("GetZzLast")})
	}
	if cell.getter {
		// a value service with a declared type: at run time it may be replaced by an object of another, convertible type
		conf.Services = append(conf.Services, cfg.Service{Name: "vsvc", Value: cfg.P(pkg + ".GlobalVal"), Type: cfg.P(pkg + ".Val"), Getter: cfg.P("GetVsvc"), MustGetter: tri(cell.must)})
	}
	if cell.typ == "val" && cell.getter {
		// value-typed failing getter as well (type-only zero value with a failing field)
		conf.Services = append(conf.Services, cfg.Service{Name: "vbad", Type: cfg.P(pkg + ".Obj"), Getter: cfg.P("GetVBad"), MustGetter: tri(cell.must),
			Fields: []cfg.KV{{K: "F1", V: cfg.Str("@bad")}}})
	}
	if cell.getter && (cell.typ == "ptr" || cell.typ == "val") {
		// a getter whose declared type the object can not be converted to: all four accessors have to report it
		other := []string{`"fixt/pb"`, "pa", `"."`, "fixt/deep/pa"}[variant%4]
		mis := cfg.Service{Name: "mis", Constructor: cfg.P(pkg + ".New"), Getter: cfg.P("ObtainMis"), MustGetter: tri(cell.must), Type: cfg.P("*" + other + ".Obj")}
		if cell.typ == "val" {
			mis.Type = cfg.P(pkg + ".Obj") // the constructor returns a pointer
		}
		conf.Services = append(conf.Services, mis)
	}
	return conf
}

func checkC13(c *Ctx) error {
	c.Rule = "(1) the full truth table getter{none,set} x type{none,pointer,value,interface} x must_getter{unset,true,false} x default_must_getter{unset,true,false} x meta names{set,partly set,unset}: each cell is generated, compiled, its exported method set (names and signature strings) reflected and compared with runtime API (taken by reflection from *container.Container in the probe) ∪ expected getters; getters are called through reflect.MethodByName and must return the object Get returns; must-getters must panic on a failing service; (2) collision space: getter equal to every method and field name of the embedded container (by reflection), Must-prefixed, InContext-suffixed, equal getters on two services: each must be rejected naming the service. distinct = distinct configuration; non-trivial = configuration has a getter or is a collision case"
	c.Assumptions = []string{"reflect's method-set and signature strings are the ground truth for the generated API", "explicit must_getter:false without a getter is not judged for acceptance (the statement is silent)"}
	lab, err := probe.NewLab(c.W)
	if err != nil {
		return err
	}
	var units []*probe.Unit
	var cells []c13cell
	i := 0
	for _, getter := range []bool{false, true} {
		for _, typ := range []string{"none", "ptr", "val", "iface"} {
			for _, must := range []string{"unset", "true", "false"} {
				for _, dm := range []string{"unset", "true", "false"} {
					for _, names := range []string{"set", "partial", "unset"} {
						if names == "unset" && !c.Thorough() && (i%6 != 0) {
							i++
							continue // package main cells need a binary each: quick runs a sixth of them
						}
						cell := c13cell{getter, typ, must, dm, names}
						conf := cell.config(i)
						ops := []probe.Op{{Op: "new"}, {Op: "api"}, {Op: "get", Name: "svc"},
							{Op: "getter", Name: "GetSvc"}, {Op: "getterctx", Name: "GetSvcInContext", Ctx: 1}, {Op: "getctx", Name: "svc", Ctx: 1},
							{Op: "getter", Name: "MustGetSvc"}, {Op: "getterctx", Name: "MustGetSvcInContext", Ctx: 1}, {Op: "getterctx", Name: "MustGetSvcInContext", Ctx: 1},
							{Op: "getterctx", Name: "MustGetSvcInContext", Ctx: 2}, {Op: "getterctx", Name: "GetSvcInContext", Ctx: 2}, {Op: "getctx", Name: "svc", Ctx: 2}, {Op: "getter", Name: "GetSvc"},
							{Op: "getter", Name: "FetchBad"}, {Op: "getterctx", Name: "FetchBadInContext", Ctx: 2}, {Op: "getter", Name: "MustFetchBad"}, {Op: "getterctx", Name: "MustFetchBadInContext", Ctx: 2},
							{Op: "getter", Name: "GetVBad"}, {Op: "getter", Name: "MustGetVBad"},
							{Op: "getter", Name: "ObtainMis"}, {Op: "getterctx", Name: "ObtainMisInContext", Ctx: 1}, {Op: "getter", Name: "MustObtainMis"}, {Op: "getterctx", Name: "MustObtainMisInContext", Ctx: 2}, {Op: "get", Name: "mis"},
							{Op: "getter", Name: "GetPlain"}, {Op: "getter", Name: "Getplain"}, {Op: "get", Name: "plain"},
							// last: a context that was never attached to the container. Whatever GetInContext does with it, the typed
							// accessors do the same (they are GetInContext plus a conversion)
							{Op: "getctxfree", Name: "svc"}, {Op: "getterctxfree", Name: "GetSvcInContext"}, {Op: "getterctxfree", Name: "MustGetSvcInContext"},
							// very last: the application replaces the value service by an object of another package's Val type - not assignable
							// to the declared type but convertible into it, and "converted to T" is what the accessors promise
							{Op: "get", Name: "vsvc", NoModel: true}, {Op: "getter", Name: "GetVsvc", NoModel: true},
							{Op: "overridesvc", Name: "vsvc", Ctor: "fixt/pb.MkVal", NoModel: true},
							{Op: "get", Name: "vsvc", NoModel: true}, {Op: "getter", Name: "GetVsvc", NoModel: true}, {Op: "getterctx", Name: "GetVsvcInContext", Ctx: 1, NoModel: true}, {Op: "getter", Name: "MustGetVsvc", NoModel: true}}
						units = append(units, &probe.Unit{ID: idOf(i), Cfg: conf, Files: []probe.File{{Name: "gontainer.yaml", Content: conf.YAML()}}, Ops: ops})
						cells = append(cells, cell)
						i++
					}
				}
			}
		}
	}
	c.Set("truth_table_cells_run", len(units))
	if err := runUnits(c, lab, units, false); err != nil {
		return err
	}
	var runtimeAPI []string
	for k, u := range units {
		cell := cells[k]
		files := unitFiles(u)
		expectReject := !cell.getter && cell.must == "true"
		unjudgedAccept := !cell.getter && cell.must == "false"
		key := u.Files[0].Content
		switch {
		case !u.Accepted:
			c.Eval(key, true)
			if !expectReject && !unjudgedAccept {
				c.Violate("cell-rejected", fmt.Sprintf("unit %s %+v: rejected: %s", u.ID, cell, rejectReason(u)), files)
			} else if expectReject {
				named := false
				for _, d := range u.Run.Rep.List {
					for _, n := range cli.Names(d) {
						named = named || n == "svc" || n == "bad"
					}
				}
				if !named {
					c.Side("C11", "must-without-getter-not-named", fmt.Sprintf("unit %s: rejection does not name the service: %v", u.ID, u.Run.Rep.List), files)
				}
				c.Add("explicit_must_without_getter_rejected", 1)
			}
			continue
		case expectReject:
			c.Eval(key, true)
			c.Violate("must-without-getter-accepted", fmt.Sprintf("unit %s %+v: explicit must_getter: true without a getter was accepted", u.ID, cell), files)
			continue
		}
		if !u.Compiled {
			c.Eval(key, true)
			c.Violate("cell-does-not-compile:"+errClass(u.CompileErr), fmt.Sprintf("unit %s %+v: %s", u.ID, cell, firstLines(u.CompileErr, 8)), files)
			continue
		}
		if len(u.Results) == 0 {
			c.Violate("probe:"+sigWords(u.ProbeErr), fmt.Sprintf("unit %s: %s", u.ID, u.ProbeErr), files)
			continue
		}
		c.Eval(key, cell.getter)
		if judgeAPI(c, u) {
			c.Add("apis_compared", 1)
		}
		for _, r := range u.Results {
			if r.API != nil && len(r.API.Runtime) > 0 {
				runtimeAPI = r.API.Runtime
				if cell.names != "set" && r.API != nil {
					// documented defaults
					// documented defaults, each on its own: package main, type Gontainer (the constructor's default is exercised by
					// the probe, which calls it by the expected name)
					if want := "*" + u.PkgName() + "." + u.TypeName(); r.API.Type != want {
						c.Violate("defaults", fmt.Sprintf("unit %s: the container type is %s, expected %s", u.ID, r.API.Type, want), files)
					}
				}
			}
		}
		{
			class := func(r probe.Res) string {
				switch {
				case r.Missing:
					return "missing"
				case r.Panic != "":
					return "panic"
				case r.Err != "":
					return "error"
				}
				return "value"
			}
			// the replaced value service: Get hands out the new object, so do the accessors (converted)
			{
				after := false
				var got *probe.Res
				for oi, op := range u.Ops {
					if oi >= len(u.Results) || !op.NoModel {
						continue
					}
					r := u.Results[oi]
					switch {
					case op.Op == "overridesvc":
						after = r.OK
					case op.Op == "get" && after:
						got = &u.Results[oi]
					case (op.Op == "getter" || op.Op == "getterctx") && after && got != nil && class(r) != "missing":
						c.Add("accessors_compared_with_Get_after_a_replacement_of_a_convertible_type", 1)
						if class(*got) == "value" && class(r) != "value" {
							c.Violate("accessor-differs-from-Get:replaced-by-a-convertible-type", fmt.Sprintf("unit %s %+v: after OverrideService(\"vsvc\", <fixt/pb.Val>) Get(\"vsvc\") hands out the new object, but %s ends in %s (%s%s); fixt/pb.Val converts into the declared type", u.ID, cell, op.Name, class(r), r.Panic, r.Err), files)
						}
					}
				}
			}
			var base *probe.Res
			for oi, op := range u.Ops {
				if oi >= len(u.Results) {
					break
				}
				r := u.Results[oi]
				switch op.Op {
				case "getctxfree":
					base = &u.Results[oi]
				case "getterctxfree":
					if base == nil || class(r) == "missing" {
						continue
					}
					c.Add("accessors_compared_with_GetInContext_on_an_unattached_context", 1)
					want := class(*base)
					if strings.HasPrefix(op.Name, "Must") && want == "error" {
						want = "panic"
					}
					if class(r) != want {
						c.Violate("accessor-differs-from-GetInContext:unattached-context", fmt.Sprintf("unit %s %+v: with a context that was never attached GetInContext(ctx, \"svc\") ends in %s (%s%s) but %s(ctx) in %s (%s%s)", u.ID, cell, class(*base), base.Panic, base.Err, op.Name, class(r), r.Panic, r.Err), files)
					}
				}
			}
		}
		exp := RunModel(u.Cfg, u.Ops, nil)
		mm, judged := CompareHistory(u, exp, false)
		c.Add("ops_judged", judged)
		for _, m := range mm {
			files["mismatch.txt"] = m.Text
			c.Violate(m.Kind+":"+u.Ops[m.Op].Op+":"+methodClass(u.Ops[m.Op].Name+" x"), fmt.Sprintf("unit %s %+v: %s", u.ID, cell, m.Text), files)
		}
		if k == 40 {
			c.Sample(map[string]any{"cell": fmt.Sprintf("%+v", cell), "config": u.Files[0].Content, "expected_getters": expectedGetterMethods(u.Cfg)})
		}
	}
	// a getter type of the configuration's own package that is spelled like a parameter, result or local of the generated
	// accessors (ctx, err, result, …) still denotes that type
	{
		su, tw, lb := shadowUnits()
		var du []*probe.Unit
		var dt []*cfg.Config
		var dl []string
		for k := range su {
			if strings.HasPrefix(lb[k], "type:") {
				du, dt, dl = append(du, su[k]), append(dt, tw[k]), append(dl, lb[k])
			}
		}
		if err := runUnits(c, lab, du, false); err != nil {
			return err
		}
		judgeShadowUnits(c, du, dt, dl)
	}
	// "generated methods never collide with each other": also not when two containers (each with getters and must-getters)
	// live in one package
	cohabitPairs(c, lab, c.Pick(10, 200))
	if len(runtimeAPI) == 0 {
		c.Inconclusive("the runtime API was never observed by reflection")
		return nil
	}
	// ---- (2) collision space through the real binary
	var names []string
	for _, m := range runtimeAPI {
		names = append(names, strings.Fields(m)[0])
	}
	names = append(names, "Container")
	type coll struct {
		conf   *cfg.Config
		reject bool
		who    []string
		why    string
	}
	var cs []coll
	base := func() *cfg.Config {
		return &cfg.Config{Meta: cfg.Meta{Pkg: cfg.P("gen"), Imports: []cfg.KS{{K: "pa", V: "fixt/pa"}}},
			Services: []cfg.Service{{Name: "a", Constructor: cfg.P("pa.New")}, {Name: "b", Constructor: cfg.P("pa.New")}}}
	}
	for _, n := range names {
		cf := base()
		cf.Services[0].Getter = cfg.P(n)
		cs = append(cs, coll{cf, true, []string{"a"}, "getter equals container member " + n})
		// near misses stay legal
		for _, nm := range []string{n + "2", "X" + n, strings.ToLower(n[:1]) + n[1:]} {
			if strings.HasSuffix(nm, "InContext") || strings.HasPrefix(nm, "Must") {
				continue
			}
			cf := base()
			cf.Services[0].Getter = cfg.P(nm)
			cs = append(cs, coll{cf, false, nil, "near miss " + nm})
		}
	}
	for _, n := range []string{"MustGet", "Must", "MustX", "Mustard", "GetInContext", "XInContext", "InContext", "MustGetXInContext"} {
		cf := base()
		cf.Services[0].Getter = cfg.P(n)
		cs = append(cs, coll{cf, true, []string{"a"}, "Must-prefixed / InContext-suffixed getter " + n})
	}
	for _, n := range []string{"mustGet", "InContextX", "Mus", "GetIncontext", "MUSTGet"} {
		cf := base()
		cf.Services[0].Getter = cfg.P(n)
		cs = append(cs, coll{cf, false, nil, "legal look-alike " + n})
	}
	{
		cf := base()
		cf.Services[0].Getter, cf.Services[1].Getter = cfg.P("GetIt"), cfg.P("GetIt")
		cs = append(cs, coll{cf, true, []string{"a", "b"}, "equal getters on two services"})
		cf = base()
		cf.Services[0].Getter, cf.Services[1].Getter = cfg.P("GetIt"), cfg.P("GetIt")
		cf.Services[1].Todo = cfg.P(true)
		cs = append(cs, coll{cf, false, nil, "equal getter on a todo service is not checked"})
		cf = base()
		cf.Services[0].Getter, cf.Services[1].Getter = cfg.P("GetIt"), cfg.P("Getit")
		cs = append(cs, coll{cf, false, nil, "getters differing by case"})
		cf = base()
		cf.Services = append(cf.Services, cfg.Service{Name: "c", Constructor: cfg.P("pa.New"), Getter: cfg.P("GetIt")})
		cf.Services[0].Getter, cf.Services[1].Getter = cfg.P("GetIt"), cfg.P("Other")
		cs = append(cs, coll{cf, true, []string{"a", "c"}, "equal getters on first and third service"})
	}
	{
		// an explicit `todo: false` is not a todo service: equal getters still collide
		for _, which := range [][]int{{0, 1}, {0}, {1}} {
			cf := base()
			cf.Services[0].Getter, cf.Services[1].Getter = cfg.P("GetIt"), cfg.P("GetIt")
			for _, k := range which {
				cf.Services[k].Todo = cfg.P(false)
			}
			cs = append(cs, coll{cf, true, []string{"a", "b"}, fmt.Sprintf("equal getters, todo: false written on %v", which)})
		}
	}
	{
		// a getter is an identifier exactly: one spelled with surrounding white space is rejected - also (and especially) when
		// its trimmed form would be a duplicate, a container member, Must… or …InContext (round 13, S248)
		pads := []func(string) string{
			func(s string) string { return s + " " }, func(s string) string { return " " + s },
			func(s string) string { return s + "\n" }, func(s string) string { return "\t" + s },
			func(s string) string { return s + "\r\n" }, func(s string) string { return s + "\u00a0" },
			func(s string) string { return "\ufeff" + s },
		}
		for pi, pad := range pads {
			for _, n := range append([]string{"Container", "MustGet", "GetXInContext", "GetFine"}, names[pi%len(names)]) {
				cf := base()
				cf.Services[0].Getter = cfg.P(pad(n))
				cs = append(cs, coll{cf, true, []string{"a"}, fmt.Sprintf("getter with surrounding white space (form %d)", pi)})
			}
			cf := base()
			cf.Services[0].Getter, cf.Services[1].Getter = cfg.P("GetIt"), cfg.P(pad("GetIt"))
			cs = append(cs, coll{cf, true, []string{"b"}, fmt.Sprintf("padded twin of another getter (form %d)", pi)})
		}
	}
	c.Set("collision_cases", len(cs))
	w := c.W
	var accepted []*probe.Unit
	Par(len(cs), 16, func(i int) {
		x := cs[i]
		dir := w.TempDir("c13c")
		yaml := x.conf.YAML()
		_ = work.WriteFile(filepath.Join(dir, "in.yaml"), []byte(yaml))
		out := filepath.Join(dir, "out.go")
		run := cli.Do(w, "", nil, dir, out, "build", "-i", "in.yaml", "-o", out)
		files := map[string]string{"input/in.yaml": yaml, "stdout.txt": run.Res.Stdout}
		c.Eval("coll:"+yaml, true)
		for _, b := range run.Contract() {
			c.Side("C10,C12", "cli-contract:"+sigWords(b), b, files)
		}
		if x.reject && run.Res.Exit == 0 {
			c.Violate("collision-accepted:"+sigWords(x.why), "accepted: "+x.why, files)
		}
		if !x.reject && run.Res.Exit != 0 {
			c.Violate("legal-getter-rejected:"+sigWords(x.why), "rejected: "+x.why+"\n"+run.Res.Stdout, files)
		}
		if x.reject && run.Res.Exit != 0 {
			for _, who := range x.who {
				named := false
				for _, d := range run.Rep.List {
					for _, n := range cli.Names(d) {
						named = named || n == who
					}
				}
				if !named {
					c.Side("C11", "collision-not-named:"+sigWords(x.why), fmt.Sprintf("%s: diagnostics do not name service %q: %v", x.why, who, run.Rep.List), files)
				}
			}
		}
	})
	// accepted near misses must also compile (no collision slipped through)
	for i, x := range cs {
		if !x.reject {
			accepted = append(accepted, &probe.Unit{ID: fmt.Sprintf("c8%04d", i), Cfg: x.conf, Files: []probe.File{{Name: "gontainer.yaml", Content: x.conf.YAML()}}})
		}
	}
	lab.Generate(accepted, 16)
	if err := lab.Compile(accepted); err != nil {
		return err
	}
	for _, u := range accepted {
		if u.Accepted && !u.Compiled {
			c.Violate("near-miss-does-not-compile:"+errClass(u.CompileErr), fmt.Sprintf("unit %s: %s", u.ID, firstLines(u.CompileErr, 6)), unitFiles(u))
		}
	}
	c.Add("near_misses_compiled", len(accepted))
	return nil
}
