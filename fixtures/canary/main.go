// Command canary prints the iteration order of a 7-entry map: a liveness check of the
// "schedule" (per-range randomisation) the determinism monitor relies on.
package main

import "fmt"

func main() {
	m := map[string]int{"a": 1, "b": 2, "c": 3, "d": 4, "e": 5, "f": 6, "g": 7}
	for k := range m {
		fmt.Print(k)
	}
	fmt.Println()
}
