// Fixture package __PKGID__ — type declarations only (also visible with -tags gontainerstub).
package __PKGNAME__

import "fixt/rec"

type Obj struct {
	rec.Core
	F1, F2 interface{}
	f3     interface{}
}

// Val is a small comparable value type.
type Val struct {
	N int
	S string
}

type Wrapped struct {
	Serial    int64
	Fn        string
	Tag       string
	ServiceID string
	Inner     interface{}
	Args      []interface{}
}

type Iface interface{ ID() int64 }
