package mon

import (
	"fmt"
	"math/rand"

	"verif/cfg"
	"verif/gen"
	"verif/probe"
	"verif/ref"
)

func init() {
	Register("C04", "exploration", func(c *Ctx) error {
		c.Rule = "seeded tag/decorator constellations: 1-6 services, 1-4 tags, priorities from {-2^31,-5,-1,0,0,1,1,5,2^31-1} with forced ties, 1-5 decorators (wrapping, annotating, fallible) with every argument form incl. !tagged and $gontainer, spread over 1, 2 or 4 input files; services registered at run time under the tags of the declared decorators are fetched too; executed and compared with the reference container (tag order = priority desc then name asc; decorators in declaration/file order after the service's own calls; payload tag/service id/current object). distinct = distinct input files; non-trivial = at least one tagged service and (a decorator on a carried tag or a !tagged argument) and >=4 judged operations"
		c.Assumptions = []string{"reference container engine/ref", "fixture decorators record their payload faithfully", "split files merge back to the single configuration by the documented rules (C09 checks this separately)"}
		n := c.Pick(500, 8000)
		lab, err := probe.NewLab(c.W)
		if err != nil {
			return err
		}
		var units []*probe.Unit
		for i := 0; i < n; i++ {
			r := rand.New(rand.NewSource(c.Seed*1000003 + int64(i)))
			o := gen.DefaultOpts()
			o.TagBias = true
			o.Scopes = i%2 == 0
			conf := gen.Behaviour(r, o)
			ops := StdOps(conf, r, i%4 == 0)
			// services registered at run time (OverrideService) under the tags of the declared decorators - also tags no declared
			// service carries: decorators and !tagged apply to whatever carries the tag
			seenTag := map[string]bool{}
			for di, d := range conf.Decorators {
				if d.Tag == "*" || seenTag[d.Tag] || di > 3 {
					continue
				}
				// no new cycle: the decorators of this tag must not themselves depend on services
				dep := false
				for _, d2 := range conf.Decorators {
					if d2.Tag != d.Tag {
						continue
					}
					for _, a := range d2.Args {
						if k := ref.Classify(a).Kind; k == ref.ArgService || k == ref.ArgTagged {
							dep = true
						}
					}
				}
				if dep {
					continue
				}
				seenTag[d.Tag] = true
				name := fmt.Sprintf("rt%d", di)
				ops = append(ops, probe.Op{Op: "overridesvc", Name: name, Ctor: []string{"fixt/pa.New", "fixt/pb.New"}[di%2], Deps: []probe.DepSpec{{Dep: "value", T: "string", V: name}},
					Tags: []probe.TagSpec{{Name: d.Tag, Prio: []int{0, 7, -3}[di%3]}}, Scope: []string{"", "shared", "non_shared"}[(i+di)%3]},
					probe.Op{Op: "get", Name: name}, probe.Op{Op: "tagged", Name: d.Tag})
			}
			u := &probe.Unit{ID: idOf(i), Cfg: conf, Files: gen.Split(r, conf, i%4), Ops: ops}
			if i%5 == 4 {
				// decorators (applied in declaration order) spread over prefix-related sibling directories read through one wildcard:
				// the declaration order is the lexical order of the cleaned paths
				u.Files, u.Patterns = gen.GlobLayout(r, conf)
				c.Add("units_read_through_one_wildcard_over_sibling_directories", 1)
			}
			units = append(units, u)
		}
		// a decorator of the configuration's own package whose name is spelled like a variable the generated code uses while it
		// registers services (`s`): at the point where decorators are registered it must still denote the user's function
		// (the names that ARE shadowed there today are C02's known finding)
		{
			su, tw, lb := shadowUnits()
			var du []*probe.Unit
			var dt []*cfg.Config
			var dl []string
			for k := range su {
				if lb[k] == "decorator:s" {
					du, dt, dl = append(du, su[k]), append(dt, tw[k]), append(dl, lb[k])
				}
			}
			if err := runUnits(c, lab, du, false); err != nil {
				return err
			}
			judgeShadowUnits(c, du, dt, dl)
		}
		return behaviourUnits(c, lab, units, func(conf *cfg.Config) bool {
			tagged := map[string]bool{}
			for _, s := range conf.Services {
				for _, t := range s.Tags {
					tagged[t.Name] = true
				}
			}
			if len(tagged) == 0 {
				return false
			}
			for _, d := range conf.Decorators {
				if tagged[d.Tag] {
					return true
				}
			}
			return hasTaggedArg(conf)
		}, false)
	})
}
