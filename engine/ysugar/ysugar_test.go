package ysugar

import (
	"math/rand"
	"testing"
)

const sample = `meta:
  pkg: main
parameters:
  a: 5
  b: "hello"
  c: "hello"
  d: "line\nbreak"
services:
  audit:
    constructor: NewPlugin
    arguments: ["audit", 5]
    tags:
      - {name: startup, priority: 100}
  cache:
    constructor: NewPlugin
    arguments: ["cache", 5]
    tags:
      - {name: startup, priority: 50}
      - {name: shutdown, priority: 100}
  metrics:
    constructor: NewPlugin
    tags:
      - {name: startup, priority: 100}
      - {name: shutdown, priority: 50}
`

func TestSugar(t *testing.T) {
	total := Stats{}
	for seed := int64(0); seed < 200; seed++ {
		out, st, ok := Sugar(rand.New(rand.NewSource(seed)), sample, 1)
		if !ok {
			t.Fatalf("seed %d: not equivalent", seed)
		}
		total.Aliases += st.Aliases
		total.Merges += st.Merges
		total.Tags += st.Tags
		total.Blocks += st.Blocks
		if seed == 3 {
			t.Log("\n" + out)
		}
	}
	if total.Aliases == 0 || total.Merges == 0 || total.Tags == 0 || total.Blocks == 0 {
		t.Fatalf("a transformation never fired: %+v", total)
	}
	t.Logf("%+v", total)
}
