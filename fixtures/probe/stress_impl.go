//go:build !gontainerstub

package probe

import (
	"fmt"
	"math/rand"
	"reflect"
	"sort"
	"sync"

	"fixt/rec"
)

// topIDs returns the identities of the object(s) an operation handed out.
var (
	retainMu sync.Mutex
	retained []interface{}
)

func topIDs(v interface{}) []int64 {
	if v == nil {
		return nil
	}
	if w, ok := v.(rec.WViewer); ok {
		rv := reflect.ValueOf(v)
		if rv.Kind() == reflect.Ptr && rv.IsNil() {
			return nil
		}
		return []int64{w.RecWrapped().Serial}
	}
	if o, ok := v.(rec.Viewer); ok {
		rv := reflect.ValueOf(v)
		if rv.Kind() == reflect.Ptr && rv.IsNil() {
			return nil
		}
		if ser := o.RecView().Core.Serial; ser != 0 || rv.Kind() != reflect.Ptr {
			return []int64{ser}
		}
		// a pointer literal (`value: &pkg.Obj{}`) carries no serial: its identity is its address, retained so that it is never reused
		retainMu.Lock()
		retained = append(retained, v)
		retainMu.Unlock()
		return []int64{int64(rv.Pointer())}
	}
	if s, ok := v.([]interface{}); ok {
		var out []int64
		for _, e := range s {
			out = append(out, topIDs(e)...)
		}
		return out
	}
	return nil
}

// deepIDs returns the identities of everything reachable from v through constructor arguments, fields, decorator wrappers and
// slices (the top-level object included), a few levels deep.
func deepIDs(v interface{}, depth int, out map[int64]bool) {
	if v == nil || depth > 4 {
		return
	}
	rv := reflect.ValueOf(v)
	if (rv.Kind() == reflect.Ptr || rv.Kind() == reflect.Interface) && rv.IsNil() {
		return
	}
	for _, id := range topIDs(v) {
		out[id] = true
	}
	if w, ok := v.(rec.WViewer); ok {
		wv := w.RecWrapped()
		deepIDs(wv.Inner, depth+1, out)
		for _, a := range wv.Args {
			deepIDs(a, depth+1, out)
		}
		return
	}
	if o, ok := v.(rec.Viewer); ok {
		vw := o.RecView()
		for _, a := range vw.Core.Args {
			deepIDs(a, depth+1, out)
		}
		deepIDs(vw.F1, depth+1, out)
		deepIDs(vw.F2, depth+1, out)
		deepIDs(vw.F3, depth+1, out)
		// what calls, withers and annotating decorators were given
		for _, e := range vw.Core.H.Entries() {
			for _, a := range e.Args {
				deepIDs(a, depth+1, out)
			}
		}
		return
	}
	if s, ok := v.([]interface{}); ok {
		for _, e := range s {
			deepIDs(e, depth+1, out)
		}
	}
}

// stressRun executes op.Ops concurrently: goroutine g runs ops[g*reps:(g+1)*reps].
// Goroutines are released from one barrier in a seeded random order; fixtures are in stress mode.
func stressRun(r *runner, op Op) *StressRes {
	G, reps := op.G, op.Reps
	res := &StressRes{Goroutines: G, Serials: map[string][]int64{}, CtxSerials: map[string]map[string][]int64{}}
	if G*reps > len(op.Ops) {
		res.Errors = append(res.Errors, "script too short")
		return res
	}
	// contexts are created up front (sequentially) so that their creation is not part of the race surface
	for _, o := range op.Ops {
		if o.Ctx != 0 {
			r.ctx(o.Ctx)
		}
	}
	rng := rand.New(rand.NewSource(op.Seed))
	order := rng.Perm(G)
	res.StartOrder = order
	gates := make([]chan struct{}, G)
	for i := range gates {
		gates[i] = make(chan struct{})
	}
	type obs struct {
		key   string
		svc   string
		ctx   int
		ids   []int64
		deep  []int64
		err   string
		pan   string
		okVal bool
	}
	all := make([][]obs, G)
	var wg sync.WaitGroup
	rec.SetJitter(true, op.Seed)
	for g := 0; g < G; g++ {
		wg.Add(1)
		go func(g int) {
			defer wg.Done()
			<-gates[g]
			for _, o := range op.Ops[g*reps : (g+1)*reps] {
				x := Res{noDescribe: true}
				r.exec(o, &x)
				ob := obs{key: o.Op + ":" + o.Name, svc: o.Name, ctx: o.Ctx, err: x.Err, pan: x.Panic}
				if x.Missing {
					ob.err = "method missing"
				}
				if x.raw != nil && x.Err == "" && x.Panic == "" {
					ob.ids = topIDs(x.raw)
					ob.okVal = true
					if o.Ctx != 0 {
						m := map[int64]bool{}
						deepIDs(x.raw, 0, m)
						for id := range m {
							if id != 0 {
								ob.deep = append(ob.deep, id)
							}
						}
					}
				}
				all[g] = append(all[g], ob)
			}
		}(g)
	}
	for _, g := range order {
		close(gates[g])
	}
	wg.Wait()
	rec.SetJitter(false, 0)
	reach := map[string]map[int64]bool{} // context label -> everything reachable from what was handed out in that context
	seen := map[string]map[int64]bool{}
	seenCtx := map[string]map[string]map[int64]bool{}
	okOps := map[string]int{}
	for g := range all {
		for _, ob := range all[g] {
			res.Ops++
			if ob.pan != "" {
				res.Panics = append(res.Panics, ob.key+": "+ob.pan)
				continue
			}
			if ob.err != "" {
				res.Errors = append(res.Errors, ob.key+": "+ob.err)
				continue
			}
			okOps[ob.key]++
			if seen[ob.key] == nil {
				seen[ob.key] = map[int64]bool{}
			}
			for _, id := range ob.ids {
				seen[ob.key][id] = true
			}
			if ob.ctx != 0 {
				if seenCtx[ob.key] == nil {
					seenCtx[ob.key] = map[string]map[int64]bool{}
				}
				lbl := fmt.Sprint(ob.ctx)
				if seenCtx[ob.key][lbl] == nil {
					seenCtx[ob.key][lbl] = map[int64]bool{}
				}
				for _, id := range ob.ids {
					seenCtx[ob.key][lbl][id] = true
				}
				if reach[lbl] == nil {
					reach[lbl] = map[int64]bool{}
				}
				for _, id := range ob.deep {
					reach[lbl][id] = true
				}
			}
		}
	}
	flat := func(m map[int64]bool) []int64 {
		var out []int64
		for id := range m {
			out = append(out, id)
		}
		sort.Slice(out, func(i, j int) bool { return out[i] < out[j] })
		return out
	}
	for k, m := range seen {
		res.Serials[k] = flat(m)
	}
	for k, byCtx := range seenCtx {
		res.CtxSerials[k] = map[string][]int64{}
		for l, m := range byCtx {
			res.CtxSerials[k][l] = flat(m)
		}
	}
	res.CtxReach = map[string][]int64{}
	for l, m := range reach {
		res.CtxReach[l] = flat(m)
	}
	res.OKOps = okOps
	sort.Strings(res.Errors)
	sort.Strings(res.Panics)
	if len(res.Errors) > 200 {
		res.Errors = res.Errors[:200]
	}
	res.Counts = rec.Counts()
	return res
}
