package ref

import (
	"go/ast"
	"go/parser"
	"go/token"
	"strconv"
	"strings"
)

// Chunk is one piece of a parameter pattern (B.3).
type Chunk struct {
	Kind string // lit | pct | ref | call
	Text string // lit: the text; ref: the parameter name; call: the function name
	Args string // call: raw text between the outer parentheses
	Raw  string // the chunk as written, including the % signs
}

// ParsePattern splits s by pairing `%` left to right. It reports why a pattern is
// rejected ("" = accepted). known tells which function names are registered.
func ParsePattern(s string, known func(string) bool) ([]Chunk, string) {
	if s == "" {
		return []Chunk{{Kind: "lit", Text: "", Raw: ""}}, ""
	}
	var chunks []Chunk
	var reject []string
	rs := []rune(s)
	lit := strings.Builder{}
	flush := func() {
		if lit.Len() > 0 {
			chunks = append(chunks, Chunk{Kind: "lit", Text: lit.String(), Raw: lit.String()})
			lit.Reset()
		}
	}
	for i := 0; i < len(rs); i++ {
		if rs[i] != '%' {
			lit.WriteRune(rs[i])
			continue
		}
		// a % opens a chunk that the next % closes
		j := i + 1
		for j < len(rs) && rs[j] != '%' {
			j++
		}
		if j >= len(rs) {
			return nil, "unclosed %"
		}
		flush()
		body := string(rs[i+1 : j])
		raw := "%" + body + "%"
		switch {
		case body == "":
			chunks = append(chunks, Chunk{Kind: "pct", Raw: raw})
		case IsYamlToken(body):
			chunks = append(chunks, Chunk{Kind: "ref", Text: body, Raw: raw})
		default:
			fn, args, ok := splitCall(body)
			switch {
			case !ok:
				reject = append(reject, "malformed token "+raw)
			case !known(fn):
				reject = append(reject, "unknown function "+fn)
			default:
				chunks = append(chunks, Chunk{Kind: "call", Text: fn, Args: args, Raw: raw})
			}
		}
		i = j
	}
	flush()
	if len(reject) > 0 {
		return nil, strings.Join(reject, "; ")
	}
	return chunks, ""
}

// splitCall recognises `ident(` … `)` where the argument text runs to the last `)` and
// contains no line break.
func splitCall(body string) (fn, args string, ok bool) {
	i := strings.IndexByte(body, '(')
	if i <= 0 || !strings.HasSuffix(body, ")") {
		return "", "", false
	}
	fn = body[:i]
	if !IsGoToken(fn) {
		return "", "", false
	}
	args = body[i+1 : len(body)-1]
	if strings.ContainsAny(args, "\n") {
		return "", "", false
	}
	return fn, args, true
}

// ParseArgs evaluates a Go expression list made of basic literals (the only argument
// shapes the generators emit). ok=false when the text is not such a list.
func ParseArgs(src string) (vals []any, ok bool) {
	if strings.TrimSpace(src) == "" {
		return nil, true
	}
	e, err := parser.ParseExpr("f(" + src + ")")
	if err != nil {
		return nil, false
	}
	call, isCall := e.(*ast.CallExpr)
	if !isCall {
		return nil, false
	}
	for _, a := range call.Args {
		v, ok := evalLit(a)
		if !ok {
			return nil, false
		}
		vals = append(vals, v)
	}
	return vals, true
}

// IsGoExprList reports whether src parses as a Go expression list.
func IsGoExprList(src string) bool {
	if strings.TrimSpace(src) == "" {
		return true
	}
	_, err := parser.ParseExpr("f(" + src + ")")
	return err == nil
}

func evalLit(e ast.Expr) (any, bool) {
	switch x := e.(type) {
	case *ast.BasicLit:
		switch x.Kind {
		case token.INT:
			i, err := strconv.ParseInt(x.Value, 0, 64)
			if err != nil {
				return nil, false
			}
			return int(i), true
		case token.FLOAT:
			f, err := strconv.ParseFloat(x.Value, 64)
			if err != nil {
				return nil, false
			}
			return f, true
		case token.STRING:
			s, err := strconv.Unquote(x.Value)
			if err != nil {
				return nil, false
			}
			return s, true
		}
	case *ast.Ident:
		switch x.Name {
		case "true":
			return true, true
		case "false":
			return false, true
		case "nil":
			return nil, true
		case "TodoReason": // constant of the fixture universe, of a named string type
			return "reason given as a typed constant", true
		}
	case *ast.UnaryExpr:
		if x.Op == token.SUB {
			v, ok := evalLit(x.X)
			if !ok {
				return nil, false
			}
			switch n := v.(type) {
			case int:
				return -n, true
			case float64:
				return -n, true
			}
		}
	}
	return nil, false
}

// CastToString is the documented multi-chunk cast: strings as is, booleans true/false,
// nil → "nil", integers in decimal, floats in shortest %f-style decimal.
func CastToString(v any) (string, bool) {
	switch x := v.(type) {
	case string:
		return x, true
	case bool:
		return strconv.FormatBool(x), true
	case nil:
		return "nil", true
	case int:
		return strconv.Itoa(x), true
	case int64:
		return strconv.FormatInt(x, 10), true
	case uint64:
		return strconv.FormatUint(x, 10), true
	case float64:
		return strconv.FormatFloat(x, 'f', -1, 64), true
	}
	return "", false
}
