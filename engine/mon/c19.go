package mon

import (
	"fmt"
	"os"
	"os/exec"
	"path/filepath"
	"regexp"
	"strings"
	"time"

	"verif/cli"
	"verif/work"
)

func init() { Register("C19", "other", checkC19) }

var reVersionLine = regexp.MustCompile(`(?m)^// gontainer version:.*$`)

func normGen(b []byte) string {
	return reVersionLine.ReplaceAllString(string(b), "// gontainer version: <any>")
}

func firstDiff(a, b string) string {
	la, lb := strings.Split(a, "\n"), strings.Split(b, "\n")
	for i := 0; i < len(la) || i < len(lb); i++ {
		var x, y string
		if i < len(la) {
			x = la[i]
		}
		if i < len(lb) {
			y = lb[i]
		}
		if x != y {
			return fmt.Sprintf("line %d:\n  expected: %s\n  observed: %s", i+1, x, y)
		}
	}
	return "(no difference)"
}

// selfArgs are the Makefile's self-compile arguments.
func selfArgs(out string, stub bool) []string {
	a := []string{"build", "-i", "internal/gontainer/gontainer.yaml", "-i", `internal/gontainer/gontainer_*.yaml`, "-o", out}
	if stub {
		a = append(a, "--stub")
	}
	return a
}

func checkC19(c *Ctx) error {
	w := c.W
	c.Rule = "self-hosting fixpoint replay: generation g regenerates internal/gontainer/gontainer.go with the tool built from generation g-1 (g=0: the checked-in file), compared byte for byte modulo the `// gontainer version:` line; generation 0 runs an unstamped build, generations 1 and 2 are rebuilt with the Makefile's ldflags stamps (clean, then dirty tree), generation 1 from the Makefile's file list `main.go`, generation 2 from the package; regeneration happens in place like `make self-compile`; the final tree is also built with release stamps (.goreleaser.yaml ldflags, versions with and without the v prefix, other major/minor numbers, pre-release and build metadata) and each such binary regenerates once; failing in-place attempts (a file forgotten, a broken extra file, a file matched twice) leave the checked-in container untouched; the patterns are also given in other orders and groupings (wildcard first, one per file, reversed, rotated, one wildcard); the configuration is also reached through a linked directory, per-file links, copies, absolute paths and redundant path elements; each (generation, repetition) comparison is one case, distinct by (generation, repetition)"
	c.Assumptions = []string{"Makefile self-compile arguments are the intended self configuration", "go build of the scratch copy is faithful to /repo's working tree"}
	gens := 3
	reps := c.Pick(2, 10)
	checked, err := os.ReadFile(filepath.Join(w.Repo, "internal/gontainer/gontainer.go"))
	if err != nil {
		return err
	}
	want := normGen(checked)
	bin := w.Bin
	// "the tool built from the tree" does not say by which Go release: the other toolchain of this machine (newer than the default one,
	// so files guarded by newer go1.N build constraints are compiled in) has to regenerate the same container
	if _, err := exec.LookPath("go1.26.8"); err == nil {
		alt := filepath.Join(w.Dir, "bin", "gontainer-go1.26.8")
		if err := w.BuildTool(alt, "", "go1.26.8", false); err != nil {
			c.Set("second_toolchain", "go1.26.8: build failed: "+firstLines(err.Error(), 3))
		} else {
			c.Set("second_toolchain", "go1.26.8")
			out := filepath.Join(w.TempDir("c19t"), "gontainer.go")
			run := cli.Do(w, alt, nil, w.Repo, out, selfArgs(out, false)...)
			c.Eval("second-toolchain", true)
			got, _ := os.ReadFile(out)
			if run.Res.Exit != 0 {
				c.Violate("selfcompile-fails-built-by-go1.26.8", "the tool built by go1.26.8 rejects its own configuration\n"+run.Res.Stdout+run.Res.Stderr, nil)
			} else if normGen(got) != want {
				c.Violate("differs-when-built-by-another-go-release", "the tool built by go1.26.8 regenerates a container that differs from the checked-in one (modulo the version line)\n"+firstDiff(want, normGen(got)),
					map[string]string{"regenerated.go": string(got), "checked-in.go": string(checked)})
			}
		}
	}
	// a process that may hold few files open (containers and CI runners set such limits): the own configuration is seven files
	for _, limit := range []int{10, 16} {
		out := filepath.Join(w.TempDir("c19u"), "gontainer.go")
		sh := append([]string{"-c", fmt.Sprintf(`ulimit -n %d || exit 97; exec "$0" "$@"`, limit), bin}, selfArgs(out, false)...)
		run := cli.Do(w, "/bin/bash", nil, w.Repo, out, sh...)
		if run.Res.Exit == 97 {
			c.Add("open_file_limit_runs_skipped", 1)
			continue
		}
		c.Eval(fmt.Sprintf("open-file-limit-%d", limit), true)
		got, _ := os.ReadFile(out)
		if run.Res.Exit != 0 {
			c.Violate("selfcompile-fails-under-an-open-file-limit", fmt.Sprintf("with at most %d open files the tool does not regenerate its own container (7 input files):\n%s\n%s", limit, run.Res.Stdout, run.Res.Stderr), nil)
		} else if normGen(got) != want {
			c.Violate("differs-under-an-open-file-limit", fmt.Sprintf("with at most %d open files the regenerated container differs\n%s", limit, firstDiff(want, normGen(got))), map[string]string{"regenerated.go": string(got)})
		}
	}
	for g := 0; g < gens; g++ {
		var last []byte
		for r := 0; r < reps; r++ {
			// in place, exactly as `make self-compile` does: the target file exists and holds the previous generation
			out := filepath.Join(w.Repo, "internal/gontainer/gontainer.go")
			run := cli.Do(w, bin, nil, w.Repo, out, selfArgs("internal/gontainer/gontainer.go", false)...)
			key := fmt.Sprintf("gen%d/rep%d", g, r)
			c.Eval(key, true)
			for _, b := range run.Contract() {
				c.Side("C10,C12", "contract:"+b, fmt.Sprintf("self-compile run (%s) breaks the CLI contract: %s\nstdout:\n%s\nstderr:\n%s", key, b, run.Res.Stdout, run.Res.Stderr), nil)
			}
			if run.Res.Exit != 0 {
				c.Violate(fmt.Sprintf("selfcompile-fails-gen%d", g), fmt.Sprintf("generation %d: the tool rejects its own configuration\n%s\n%s", g, run.Res.Stdout, run.Res.Stderr), nil)
				return nil
			}
			got, err := os.ReadFile(out)
			if err != nil {
				return err
			}
			last = got
			if normGen(got) != want {
				c.Violate(fmt.Sprintf("gen%d-differs", g), fmt.Sprintf("generation %d output differs from the checked-in internal/gontainer/gontainer.go (modulo the version line)\n%s", g, firstDiff(want, normGen(got))),
					map[string]string{"regenerated.go": string(got), "checked-in.go": string(checked)})
			}
			if g == 0 && r == 0 {
				c.Sample(map[string]any{"generation": 0, "args": selfArgs("<out>", false), "bytes": len(got), "sha256": work.Sha([]byte(normGen(got)))})
			}
		}
		if g == gens-1 {
			break
		}
		// next generation: install the regenerated file and rebuild the tool from it
		if err := os.WriteFile(filepath.Join(w.Repo, "internal/gontainer/gontainer.go"), last, 0o644); err != nil {
			return err
		}
		nb := filepath.Join(w.Dir, "bin", fmt.Sprintf("gontainer-gen%d", g+1))
		// rebuilt the way `make build` does (ldflags stamps); the regenerated tree is what a developer's checkout would be: dirty
		ld := ""
		switch g {
		case 0:
			ld = "-X main.date=2026-01-02T03:04:05Z -X main.commit=0123456789abcdef0123456789abcdef01234567 -X main.version=dev-main -X main.isGitDirty=false -X main.builtBy=make4.3"
		case 1:
			ld = "-X main.date=2026-01-02T03:04:05Z -X main.commit=0123456789abcdef0123456789abcdef01234567 -X main.version=dev-main -X main.isGitDirty=true -X main.builtBy=make4.3"
		}
		// generation 1 is built exactly like the Makefile's build target (`go build … main.go`, a file list), generation 2 like
		// `go install` / goreleaser (the package): both are "the tool built from the tree"
		target := "."
		if g == 0 {
			target = "main.go"
			if err := w.BuildToolTarget(nb, ld, "", false, target); err != nil {
				c.Set("makefile_style_build", "failed, fell back to the package build: "+firstLines(err.Error(), 3))
				target = "."
			} else {
				c.Set("makefile_style_build", "ok (go build main.go)")
			}
		}
		if err := w.BuildToolTarget(nb, ld, "", false, target); err != nil {
			c.Violate(fmt.Sprintf("gen%d-does-not-build", g+1), "the tool does not build with its regenerated container:\n"+err.Error(), map[string]string{"regenerated.go": string(last)})
			return nil
		}
		bin = nb
		c.Add("tool_rebuilds", 1)
	}
	// release builds (.goreleaser.yaml stamps the tag as main.version; `go install …@vX.Y.Z` stamps the module version): every
	// one of them is "the tool built from the tree" and has to accept and reproduce its own configuration
	stamps := []string{"0.10.0", "v1.0.0"}
	if c.Thorough() {
		stamps = []string{"0.10.0", "v0.10.0", "1.0.0", "v1.0.0", "0.0.1", "v2.3.4-rc.1", "0.9.3", "v10.20.30+build.5", "devel", "(devel)", ""}
	}
	for _, v := range stamps {
		rb := filepath.Join(w.Dir, "bin", "gontainer-release")
		ld := "-s -w -X main.version=" + v + " -X main.commit=0123456789abcdef0123456789abcdef01234567 -X main.date=2026-01-02T03:04:05Z -X main.builtBy=goreleaser -X main.isGitDirty=false"
		if v == "" {
			ld = "-s -w"
		}
		if err := w.BuildTool(rb, ld, "", false); err != nil {
			return fmt.Errorf("release-stamped build: %v", err)
		}
		out := filepath.Join(w.TempDir("c19r"), "gontainer.go")
		run := cli.Do(w, rb, nil, w.Repo, out, selfArgs(out, false)...)
		c.Eval("release-stamp/"+v, true)
		c.Add("release_stamped_builds", 1)
		got, _ := os.ReadFile(out)
		if run.Res.Exit != 0 {
			c.Violate("selfcompile-fails-release-build", fmt.Sprintf("a build stamped main.version=%q rejects the tool's own configuration\n%s", v, run.Res.Stdout), nil)
		} else if normGen(got) != want {
			c.Violate("release-build-differs", fmt.Sprintf("a build stamped main.version=%q regenerates a different container\n%s", v, firstDiff(want, normGen(got))), map[string]string{"regenerated.go": string(got)})
		}
	}
	// the same configuration given with an additional pattern that matches nothing (before the real ones) is the same configuration
	{
		out := filepath.Join(w.TempDir("c19e"), "gontainer.go")
		args := []string{"build", "-i", "internal/gontainer/no-such-file-*.yml", "-i", "internal/gontainer/gontainer.yaml", "-i", "internal/gontainer/gontainer_*.yml", "-i", "internal/gontainer/gontainer_*.yaml", "-o", out}
		run := cli.Do(w, bin, nil, w.Repo, out, args...)
		c.Eval("empty-patterns-first", true)
		got, _ := os.ReadFile(out)
		if run.Res.Exit != 0 || normGen(got) != want {
			c.Violate("self-config-with-empty-patterns-differs", fmt.Sprintf("self configuration given with extra patterns that match nothing: exit %d, output equal to the checked-in file: %v\n%s", run.Res.Exit, normGen(got) == want, firstDiff(want, normGen(got))), nil)
		}
	}
	// an attempt that fails (one of the tool's own files forgotten; a broken extra file) while regenerating IN PLACE leaves the
	// checked-in container as it is, so that the tool can still be rebuilt and the next complete attempt reproduces it
	{
		target := filepath.Join(w.Repo, "internal/gontainer/gontainer.go")
		before, _ := os.ReadFile(target)
		_ = os.WriteFile(filepath.Join(w.Repo, "internal/gontainer/zz_broken.yml"), []byte("services:\n  broken: {constructor: \"not a go function()\"}\n"), 0o644)
		forgot := []string{"build", "-i", "internal/gontainer/gontainer.yaml"}
		if ns, _ := filepath.Glob(filepath.Join(w.Repo, "internal/gontainer/gontainer_*.yaml")); len(ns) > 0 {
			for _, n := range ns {
				if filepath.Base(n) != "gontainer_todo.yaml" {
					forgot = append(forgot, "-i", "internal/gontainer/"+filepath.Base(n))
				}
			}
		}
		forgot = append(forgot, "-o", "internal/gontainer/gontainer.go")
		attempts := [][]string{
			forgot,
			{"build", "-i", "internal/gontainer/gontainer.yaml", "-i", "internal/gontainer/gontainer_*.yaml", "-i", "internal/gontainer/zz_broken.yml", "-o", "internal/gontainer/gontainer.go"},
			{"build", "-i", "internal/gontainer/gontainer.yaml", "-i", "internal/gontainer/gontainer_*.yaml", "-i", "internal/gontainer/gontainer_todo.yaml", "-o", "internal/gontainer/gontainer.go"},
		}
		for ai, args := range attempts {
			run := cli.Do(w, bin, nil, w.Repo, target, args...)
			c.Eval(fmt.Sprintf("failing-in-place/%d", ai), true)
			after, _ := os.ReadFile(target)
			if run.Res.Exit == 0 {
				// not a failing attempt after all: nothing to judge, put the file back
				c.Add("in_place_attempts_that_did_not_fail", 1)
				_ = os.WriteFile(target, before, 0o644)
				continue
			}
			c.Add("failing_in_place_attempts", 1)
			if string(after) != string(before) {
				c.Violate("failed-regeneration-damages-checked-in-container", fmt.Sprintf("a failing in-place regeneration (%v, exit %d) changed internal/gontainer/gontainer.go: %d bytes before, %d after", args, run.Res.Exit, len(before), len(after)), nil)
				_ = os.WriteFile(target, before, 0o644)
			}
		}
		_ = os.Remove(filepath.Join(w.Repo, "internal/gontainer/zz_broken.yml"))
		run := cli.Do(w, bin, nil, w.Repo, target, selfArgs("internal/gontainer/gontainer.go", false)...)
		got, _ := os.ReadFile(target)
		c.Eval("regenerate-after-failed-attempts", true)
		if run.Res.Exit != 0 || normGen(got) != want {
			c.Violate("regeneration-after-failed-attempts-differs", fmt.Sprintf("after failed attempts the complete regeneration gives exit %d, equal to the checked-in file: %v", run.Res.Exit, normGen(got) == want), nil)
		}
	}
	// run the way `go generate` runs a command (GOPACKAGE, GOFILE, GOLINE, GOARCH, GOOS exported, from the directory of the
	// file holding the directive): the environment is no input
	{
		out := filepath.Join(w.TempDir("c19g"), "gontainer.go")
		env := append(w.SaneEnv(), "GOPACKAGE=main", "GOFILE=main.go", "GOLINE=20", "GOARCH=amd64", "GOOS=linux", "DOLLAR=$", "GOMAXPROCS=2")
		res := work.Run(bin, w.Repo, env, 120*time.Second, nil, selfArgs(out, false)...)
		c.Eval("go-generate-environment", true)
		got, _ := os.ReadFile(out)
		if res.Exit != 0 || normGen(got) != want {
			c.Violate("self-config-under-go-generate-environment", fmt.Sprintf("the self configuration regenerated with the variables go generate exports: exit %d, output equal to the checked-in file: %v\n%s", res.Exit, normGen(got) == want, firstDiff(want, normGen(got))), nil)
		}
	}
	// other ways of reaching the same files: the tool's configuration through a linked directory, through per-file links
	// (all files / only the main one), as copies elsewhere, by absolute paths from another working directory, with redundant
	// path elements. The list of file contents is the same, so the container is the same
	{
		src := filepath.Join(w.Repo, "internal/gontainer")
		names, _ := filepath.Glob(filepath.Join(src, "gontainer*.yaml"))
		type layout struct {
			name string
			cwd  string
			dir  string // where the patterns point
		}
		var lays []layout
		// (a) linked directory
		la := w.TempDir("c19l")
		_ = os.Symlink(src, filepath.Join(la, "cfg"))
		lays = append(lays, layout{"linked-directory", la, "cfg"})
		// (b) every file is a link
		lb := w.TempDir("c19l")
		_ = os.MkdirAll(filepath.Join(lb, "cfg"), 0o755)
		for _, n := range names {
			_ = os.Symlink(n, filepath.Join(lb, "cfg", filepath.Base(n)))
		}
		lays = append(lays, layout{"every-file-linked", lb, "cfg"})
		// (c) only the main file is a link, the others are copies
		lc := w.TempDir("c19l")
		_ = os.MkdirAll(filepath.Join(lc, "cfg"), 0o755)
		for _, n := range names {
			if filepath.Base(n) == "gontainer.yaml" {
				_ = os.Symlink(n, filepath.Join(lc, "cfg", filepath.Base(n)))
				continue
			}
			b, _ := os.ReadFile(n)
			_ = os.WriteFile(filepath.Join(lc, "cfg", filepath.Base(n)), b, 0o644)
		}
		lays = append(lays, layout{"main-file-linked", lc, "cfg"})
		// (d) plain copies elsewhere, read-only
		ld := w.TempDir("c19l")
		_ = os.MkdirAll(filepath.Join(ld, "deep/er/cfg"), 0o755)
		for _, n := range names {
			b, _ := os.ReadFile(n)
			_ = os.WriteFile(filepath.Join(ld, "deep/er/cfg", filepath.Base(n)), b, 0o444)
		}
		lays = append(lays, layout{"read-only-copies", ld, "deep/er/cfg"})
		// (e) absolute patterns from an unrelated working directory; (f) redundant path elements
		lays = append(lays, layout{"absolute-from-elsewhere", w.TempDir("c19l"), src})
		// path elements that start with a dot: the parent directory, a hidden directory holding copies
		lays = append(lays, layout{"relative-through-parent", filepath.Join(w.Repo, "internal/cmd"), "../gontainer"})
		lh := w.TempDir("c19l")
		_ = os.MkdirAll(filepath.Join(lh, ".config/gontainer.d"), 0o755)
		for _, n := range names {
			b, _ := os.ReadFile(n)
			_ = os.WriteFile(filepath.Join(lh, ".config/gontainer.d", filepath.Base(n)), b, 0o644)
		}
		lays = append(lays, layout{"copies-in-hidden-directory", lh, ".config/gontainer.d"})
		lays = append(lays, layout{"redundant-path-elements", w.Repo, "./internal//gontainer/../gontainer/."})
		for _, l := range lays {
			out := filepath.Join(w.TempDir("c19o"), "gontainer.go")
			args := []string{"build", "-i", l.dir + "/gontainer.yaml", "-i", l.dir + "/gontainer_*.yaml", "-o", out}
			run := cli.Do(w, bin, nil, l.cwd, out, args...)
			c.Eval("layout/"+l.name, true)
			c.Add("alternative_layouts_of_the_self_configuration", 1)
			got, _ := os.ReadFile(out)
			if run.Res.Exit != 0 || normGen(got) != want {
				c.Violate("self-config-layout:"+l.name, fmt.Sprintf("the self configuration reached as %q (%v): exit %d, output equal to the checked-in file: %v\n%s\n%s", l.name, args, run.Res.Exit, normGen(got) == want, rejectReason2(run), firstDiff(want, normGen(got))), nil)
			}
		}
	}
	// the files of the self configuration declare disjoint things (one file holds the meta section, one the only decorator,
	// every service lives in one file): whatever the order and grouping of the patterns, the merged configuration is the same
	{
		src := filepath.Join(w.Repo, "internal/gontainer")
		ns, _ := filepath.Glob(filepath.Join(src, "gontainer*.yaml"))
		var rel []string
		for _, n := range ns {
			rel = append(rel, "internal/gontainer/"+filepath.Base(n))
		}
		rev := append([]string{}, rel...)
		for i, j := 0, len(rev)-1; i < j; i, j = i+1, j-1 {
			rev[i], rev[j] = rev[j], rev[i]
		}
		rot := append(append([]string{}, rel[len(rel)/2:]...), rel[:len(rel)/2]...)
		orders := map[string][]string{
			"wildcard-first":       {"internal/gontainer/gontainer_*.yaml", "internal/gontainer/gontainer.yaml"},
			"one-pattern-per-file": rel,
			"reverse-order":        rev,
			"rotated-order":        rot,
			"single-wildcard":      {"internal/gontainer/gontainer*.yaml"},
		}
		for name, pats := range orders {
			out := filepath.Join(w.TempDir("c19p"), "gontainer.go")
			args := []string{"build"}
			for _, p := range pats {
				args = append(args, "-i", p)
			}
			args = append(args, "-o", out)
			run := cli.Do(w, bin, nil, w.Repo, out, args...)
			c.Eval("pattern-order/"+name, true)
			c.Add("pattern_orders_of_the_self_configuration", 1)
			got, _ := os.ReadFile(out)
			if run.Res.Exit != 0 || normGen(got) != want {
				c.Violate("self-config-pattern-order:"+name, fmt.Sprintf("the self configuration given as %v: exit %d, output equal to the checked-in file: %v\n%s\n%s", pats, run.Res.Exit, normGen(got) == want, rejectReason2(run), firstDiff(want, normGen(got))), nil)
			}
		}
	}
	// the stub of the self configuration must be generated too (Makefile generate-stub) and be stable
	var stubs []string
	for r := 0; r < 2; r++ {
		out := filepath.Join(w.TempDir("c19s"), "stub.go")
		run := cli.Do(w, bin, nil, w.Repo, out, selfArgs(out, true)...)
		c.Eval(fmt.Sprintf("stub/rep%d", r), true)
		if run.Res.Exit != 0 {
			c.Violate("selfstub-fails", "the tool rejects its own configuration with --stub\n"+run.Res.Stdout, nil)
			return nil
		}
		b, _ := os.ReadFile(out)
		stubs = append(stubs, normGen(b))
	}
	if len(stubs) == 2 && stubs[0] != stubs[1] {
		c.Violate("selfstub-unstable", "two stub generations of the self configuration differ\n"+firstDiff(stubs[0], stubs[1]), nil)
	}
	c.Set("generations", gens)
	c.Set("repetitions_per_generation", reps)
	return nil
}
