package ref

import "verif/cfg"

// Merge folds two configuration fragments by the documented rules (B.1): later scalars
// override, mappings unite key-wise with later values winning, non-empty arguments replace,
// calls, tags and decorators are appended.
func Merge(a, b cfg.Config) cfg.Config {
	out := cfg.Config{}
	out.Version = a.Version
	if b.Version != nil {
		out.Version = b.Version
	}
	out.Meta = a.Meta
	if b.Meta.Pkg != nil {
		out.Meta.Pkg = b.Meta.Pkg
	}
	if b.Meta.ContainerType != nil {
		out.Meta.ContainerType = b.Meta.ContainerType
	}
	if b.Meta.ContainerConstructor != nil {
		out.Meta.ContainerConstructor = b.Meta.ContainerConstructor
	}
	if b.Meta.DefaultMustGetter != nil {
		out.Meta.DefaultMustGetter = b.Meta.DefaultMustGetter
	}
	out.Meta.Imports = mergeKS(a.Meta.Imports, b.Meta.Imports)
	out.Meta.Functions = mergeKS(a.Meta.Functions, b.Meta.Functions)
	out.Params = mergeKV(a.Params, b.Params)
	out.Services = append([]cfg.Service(nil), a.Services...)
	for _, sb := range b.Services {
		found := false
		for i := range out.Services {
			if out.Services[i].Name == sb.Name {
				out.Services[i] = mergeService(out.Services[i], sb)
				found = true
				break
			}
		}
		if !found {
			out.Services = append(out.Services, sb)
		}
	}
	out.Decorators = append(append([]cfg.Decorator(nil), a.Decorators...), b.Decorators...)
	return out
}

func mergeKS(a, b []cfg.KS) []cfg.KS {
	out := append([]cfg.KS(nil), a...)
	for _, kv := range b {
		found := false
		for i := range out {
			if out[i].K == kv.K {
				out[i].V = kv.V
				found = true
			}
		}
		if !found {
			out = append(out, kv)
		}
	}
	return out
}

func mergeKV(a, b []cfg.KV) []cfg.KV {
	out := append([]cfg.KV(nil), a...)
	for _, kv := range b {
		found := false
		for i := range out {
			if out[i].K == kv.K {
				out[i].V = kv.V
				found = true
			}
		}
		if !found {
			out = append(out, kv)
		}
	}
	return out
}

func mergeService(a, b cfg.Service) cfg.Service {
	out := a
	if b.Getter != nil {
		out.Getter = b.Getter
	}
	if b.MustGetter != nil {
		out.MustGetter = b.MustGetter
	}
	if b.Type != nil {
		out.Type = b.Type
	}
	if b.Value != nil {
		out.Value = b.Value
	}
	if b.Constructor != nil {
		out.Constructor = b.Constructor
	}
	if b.Scope != nil {
		out.Scope = b.Scope
	}
	if b.Todo != nil {
		out.Todo = b.Todo
	}
	if len(b.Args) > 0 {
		out.Args = append([]cfg.Val(nil), b.Args...)
	} else {
		out.Args = append([]cfg.Val(nil), a.Args...)
	}
	out.Calls = append(append([]cfg.Call(nil), a.Calls...), b.Calls...)
	out.Fields = mergeKV(a.Fields, b.Fields)
	out.Tags = append(append([]cfg.Tag(nil), a.Tags...), b.Tags...)
	return out
}

// MergeAll folds a list of fragments left to right.
func MergeAll(parts []cfg.Config) cfg.Config {
	out := cfg.Config{}
	for _, p := range parts {
		out = Merge(out, p)
	}
	return out
}
