package mon

import (
	"verif/gen"
	"fmt"
	"math/rand"
	"path/filepath"
	"regexp"
	"sort"
	"strings"

	"verif/cfg"
	"verif/cli"
	"verif/probe"
	"verif/ref"
	"verif/work"
)

func init() { Register("C07", "exploration", checkC07) }

var reCycleElem = regexp.MustCompile(`@([A-Za-z][A-Za-z0-9._-]*)|%([A-Za-z][A-Za-z0-9._-]*)%`)

type cycElem struct {
	kind, name string
}

func parseCycleLine(line string) []cycElem {
	var out []cycElem
	// elements are separated by " -> "; only @service and %param% tokens are elements
	for _, tok := range strings.Split(line, " -> ") {
		tok = strings.TrimSpace(tok)
		// the first token carries the step prefix ("output.ValidateCircularDeps: @a")
		if i := strings.LastIndex(tok, ": "); i >= 0 {
			tok = tok[i+2:]
		}
		m := reCycleElem.FindStringSubmatch(tok)
		if m == nil || m[0] != tok {
			continue // intermediate (!tagged t, decorate(...), decorator(#i))
		}
		if m[1] != "" {
			out = append(out, cycElem{"service", m[1]})
		} else {
			out = append(out, cycElem{"param", m[2]})
		}
	}
	return out
}

// judgeCycles compares the Circular dependencies section with the reference relation.
func judgeCycles(c *Ctx, conf *cfg.Config, run *cli.Run, files map[string]string) {
	judgeCyclesOpt(c, conf, run, files, true)
}

// judgeCyclesOpt: with onlyDefect=false the configuration may carry other defects, so acceptance is not judged here.
func judgeCyclesOpt(c *Ctx, conf *cfg.Config, run *cli.Run, files map[string]string, onlyDefect bool) {
	g := ref.BuildGraph(conf)
	pc, sc := g.ParamsOnCycle(), g.ServicesOnCycle()
	cyclic := len(pc)+len(sc) > 0
	sec := run.Rep.Section("Circular dependencies")
	if sec == nil {
		c.Inconclusive("the report has no 'Circular dependencies' step: the cycle diagnostics cannot be attributed")
		return
	}
	if cyclic != (sec.Status == "fail") {
		if cyclic {
			c.Violate("cycle-not-detected", fmt.Sprintf("elements on cycles: params %v services %v, step status %s\n%s", keys(pc), keys(sc), sec.Status, run.Res.Stdout), files)
		} else {
			c.Violate("acyclic-rejected-for-cycles", "no cycle in the reference relation but the step failed:\n"+run.Res.Stdout, files)
		}
		return
	}
	if onlyDefect && cyclic != (run.Res.Exit != 0) {
		c.Violate("cycle-acceptance", fmt.Sprintf("cyclic=%v exit=%d", cyclic, run.Res.Exit), files)
	}
	covered := map[string]bool{}
	for _, ln := range sec.Errors {
		el := parseCycleLine(ln)
		if len(el) < 2 {
			c.Inconclusive(fmt.Sprintf("a cycle diagnostic could not be read (fewer than two elements): %q", ln))
			continue
		}
		if el[0] != el[len(el)-1] {
			c.Violate("cycle-line-not-closed", fmt.Sprintf("reported cycle does not return to its start: %q", ln), files)
		}
		for i := 0; i+1 < len(el); i++ {
			a, b := el[i], el[i+1]
			ok := false
			switch {
			case a.kind == "param" && b.kind == "param":
				ok = g.ParamEdges[a.name][b.name]
			case a.kind == "service" && b.kind == "service":
				ok = g.SvcEdges[a.name][b.name]
			}
			if !ok {
				c.Violate("cycle-line-not-in-relation", fmt.Sprintf("reported step %s %s -> %s %s is not a dependency of the configuration: %q", a.kind, a.name, b.kind, b.name, ln), files)
			}
			covered[a.kind+":"+a.name] = true
		}
	}
	for p := range pc {
		if !covered["param:"+p] {
			c.Violate("cycle-element-not-shown:param", fmt.Sprintf("parameter %q lies on a cycle but no reported cycle goes through it\n%q", p, sec.Errors), files)
		}
	}
	for s := range sc {
		if !covered["service:"+s] {
			c.Violate("cycle-element-not-shown:service", fmt.Sprintf("service %q lies on a cycle but no reported cycle goes through it\n%q", s, sec.Errors), files)
		}
	}
}

const (
	ckNone = iota
	ckAt
	ckTagged
	ckDecorator
	ckDecTagged // a decorator on a tag of i whose argument is `!tagged t` with t carried by j
)

// mixedGraphConfig: 3 services, kind[i][j] over {none,@,!tagged,decorator-on-tag} for every ordered pair incl. i==j.
func mixedGraphConfig(n int, kind func(i, j int) int) *cfg.Config {
	return mixedGraphConfigN(n, kind, false)
}

// mixedGraphConfigN: with sharedNames, tags are named like services (and parameters named like services
// are referenced next to them), so that a dependency graph keyed by bare names would confuse them.
// c07Names, when set, names the services (and the parameters named like them) instead of s0, s1, …: names built from few
// letters and the separators `_`, `-`, `.` so that different (from, to) pairs concatenate to the same text (a + "_" + b_c =
// a_b + "_" + c). Only written between the sequential generation steps of checkC07.
var c07Names []string

func c07Name(i int) string {
	if i < len(c07Names) {
		return c07Names[i]
	}
	return fmt.Sprintf("s%d", i)
}

func mixedGraphConfigN(n int, kind func(i, j int) int, sharedNames bool) *cfg.Config {
	c := &cfg.Config{Meta: cfg.Meta{Pkg: cfg.P("gen"), Imports: []cfg.KS{{K: "pa", V: "fixt/pa"}}}}
	for i := 0; i < n; i++ {
		c.Services = append(c.Services, cfg.Service{Name: c07Name(i), Constructor: cfg.P("pa.New")})
	}
	hasTag := func(s *cfg.Service, t string) bool {
		for _, x := range s.Tags {
			if x.Name == t {
				return true
			}
		}
		return false
	}
	if sharedNames {
		for i := 0; i < n; i++ {
			c.Params = append(c.Params, cfg.KV{K: c07Name(i), V: cfg.Int(int64(i))})
		}
	}
	for i := 0; i < n; i++ {
		for j := 0; j < n; j++ {
			si, sj := &c.Services[i], &c.Services[j]
			if sharedNames && kind(i, j) != ckNone {
				si.Args = append(si.Args, cfg.Str("%"+sj.Name+"%")) // a parameter named like the service, referenced first
			}
			switch kind(i, j) {
			case ckAt:
				si.Args = append(si.Args, cfg.Str("@"+sj.Name))
				if sharedNames && (i+j)%2 == 0 { // the same service referenced twice, in different positions
					si.Calls = append(si.Calls, cfg.Call{Method: "Set", Args: []cfg.Val{cfg.Str("@" + sj.Name), cfg.Str("@" + sj.Name)}})
				}
			case ckTagged:
				t := fmt.Sprintf("t%d", j)
				if sharedNames {
					t = sj.Name // the tag is named like the service that carries it
				}
				if !hasTag(sj, t) {
					sj.Tags = append(sj.Tags, cfg.Tag{Name: t})
				}
				si.Args = append(si.Args, cfg.Str("!tagged "+t))
			case ckDecorator:
				t := fmt.Sprintf("d%d-%d", i, j)
				if sharedNames {
					t = c07Name((i + j + 1) % n) // a tag named like some service
					if t == sj.Name && kind(i, j) == ckTagged {
						t = fmt.Sprintf("d%d-%d", i, j)
					}
				}
				if !hasTag(si, t) {
					si.Tags = append(si.Tags, cfg.Tag{Name: t})
				}
				c.Decorators = append(c.Decorators, cfg.Decorator{Tag: t, Decorator: "pa.DecSame", Args: []cfg.Val{cfg.Str("@" + sj.Name)}})
			case ckDecTagged:
				// the tag requested by the decorator is requested by nothing else and decorated by nothing
				t := fmt.Sprintf("e%d-%d", i, j)
				tj := fmt.Sprintf("m%d-%d", i, j)
				if !hasTag(si, t) {
					si.Tags = append(si.Tags, cfg.Tag{Name: t})
				}
				if !hasTag(sj, tj) {
					sj.Tags = append(sj.Tags, cfg.Tag{Name: tj})
				}
				c.Decorators = append(c.Decorators, cfg.Decorator{Tag: t, Decorator: "pa.DecSame", Args: []cfg.Val{cfg.Int(int64(i)), cfg.Str("!tagged " + tj)}})
			}
		}
	}
	if sharedNames {
		// patterns naming several parameters AFTER the @service / !tagged arguments (and in decorator arguments): however many
		// parameter references an argument list holds, its service references stay what they are
		for i := range c.Services {
			if si := &c.Services[i]; len(si.Args) > 0 && i%2 == 0 {
				var sb strings.Builder
				for k := 0; k < 3+i%3+len(si.Args); k++ {
					sb.WriteString("%" + c07Name(k%n) + "%:")
				}
				si.Args = append(si.Args, cfg.Str(sb.String()))
			}
		}
		for d := range c.Decorators {
			if d%2 == 1 {
				c.Decorators[d].Args = append(c.Decorators[d].Args, cfg.Str("%"+c07Name(0)+"%/%"+c07Name((d+1)%n)+"%/%"+c07Name(0)+"%/%"+c07Name(d%n)+"%"))
			}
		}
	}
	return c
}

// addInertParts adds things that look like dependencies but are none: decorators on the tag `*` (no service can carry
// it) and on tags no service carries, with @service and !tagged arguments; requests for tags nobody carries.
func addInertParts(r *rand.Rand, c *cfg.Config) {
	if len(c.Services) == 0 {
		return
	}
	sv := func() string { return "@" + c.Services[r.Intn(len(c.Services))].Name }
	for k := 0; k < 1+r.Intn(3); k++ {
		switch r.Intn(4) {
		case 0:
			c.Decorators = append(c.Decorators, cfg.Decorator{Tag: "*", Decorator: "pa.DecSame", Args: []cfg.Val{cfg.Str(sv())}})
		case 1:
			d := cfg.Decorator{Tag: "*", Decorator: "pa.DecSame", Args: []cfg.Val{cfg.Str(sv()), cfg.Str(sv())}}
			for _, s := range c.Services {
				if len(s.Tags) > 0 && r.Intn(2) == 0 {
					d.Args = append(d.Args, cfg.Str("!tagged "+s.Tags[0].Name))
					break
				}
			}
			c.Decorators = append([]cfg.Decorator{d}, c.Decorators...)
		case 2:
			c.Decorators = append(c.Decorators, cfg.Decorator{Tag: fmt.Sprintf("carried-by-nobody%d", k), Decorator: "pa.DecSame", Args: []cfg.Val{cfg.Str(sv())}})
		case 3:
			s := &c.Services[r.Intn(len(c.Services))]
			s.Args = append(s.Args, cfg.Str(fmt.Sprintf("!tagged nobody%d", k)))
		}
	}
}

func checkC07(c *Ctx) error {
	c.Rule = "(a) all 512 digraphs on 3 parameters incl. self-loops (always); (b) all 512 @-digraphs on 3 services (always); (c) all 4^9 = 262 144 graphs on 3 services where every ordered pair is one of {none, @service, via !tagged, via decorator-on-tag} (thorough: all; quick: seeded sample of 6 000); a third of (c) and (d) also carry inert look-alikes: decorators on `*` and on tags nobody carries, with @service/!tagged arguments; (c2) a seeded sample of the 5^9 graphs with a fifth kind (decorator whose argument is `!tagged t`, t requested by nothing else); every fourth random graph names its nodes a, a_b, b, b_c, … so that different (from, to) pairs concatenate to the same text; (d) seeded sparse graphs on <=12 parameters and services with overlapping cycles, all edge kinds; a third of them also refer to services/parameters that are not declared and are built with both --ignore-missing-* flags. Each configuration runs through the real binary; the 'Circular dependencies' step must fail iff the reference relation has a cycle (Tarjan SCC), every reported line must be a closed walk of the relation, every element on a cycle must occur in a reported line. Accepted samples are compiled and executed: CircularDeps()==nil and every GetParam returns. distinct = distinct configuration; non-trivial = the relation has at least one edge"
	c.Assumptions = []string{"reference relation engine/ref.BuildGraph (statement of C07)", "graphs whose largest strongly connected component exceeds 6 nodes are skipped (the statement's cost proviso) and counted"}
	w := c.W
	var jobs []*cfg.Config
	flagged := map[int]bool{} // job index -> built with both --ignore-missing-* flags
	// (a) parameter digraphs
	for m := 0; m < 512; m++ {
		conf := &cfg.Config{Meta: cfg.Meta{Pkg: cfg.P("gen")}}
		for i := 0; i < 3; i++ {
			v := "x"
			any := false
			for j := 0; j < 3; j++ {
				if m&(1<<(i*3+j)) != 0 {
					// the same parameter is referenced 1 to 4 times in one pattern: the relation does not change
					for k := 0; k <= (m+i+j)%4; k++ {
						v += fmt.Sprintf("%%p%d%%.", j)
					}
					any = true
				}
			}
			if any {
				conf.Params = append(conf.Params, cfg.KV{K: fmt.Sprintf("p%d", i), V: cfg.Str(v)})
			} else {
				conf.Params = append(conf.Params, cfg.KV{K: fmt.Sprintf("p%d", i), V: cfg.Int(int64(i))})
			}
		}
		jobs = append(jobs, conf)
	}
	// (b) @-digraphs
	for m := 0; m < 512; m++ {
		mm := m
		jobs = append(jobs, mixedGraphConfig(3, func(i, j int) int {
			if mm&(1<<(i*3+j)) != 0 {
				return ckAt
			}
			return ckNone
		}))
	}
	// (c) mixed kinds
	total := 262144
	inert := 0
	var picks []int
	if c.Thorough() {
		for m := 0; m < total; m++ {
			picks = append(picks, m)
		}
	} else {
		r := rand.New(rand.NewSource(c.Seed))
		for k := 0; k < 6000; k++ {
			picks = append(picks, r.Intn(total))
		}
	}
	for k, m := range picks {
		mm := m
		conf := mixedGraphConfigN(3, func(i, j int) int { return (mm >> (2 * (i*3 + j))) & 3 }, k%2 == 1)
		if k%3 == 2 {
			addInertParts(rand.New(rand.NewSource(c.Seed*13+int64(k))), conf)
			inert++
		}
		if k%5 == 3 {
			respellTagged(conf, k)
		}
		jobs = append(jobs, conf)
	}
	// (c2) the same with a fifth kind, a decorator whose argument requests a tag (5^9 graphs: sampled)
	{
		r := rand.New(rand.NewSource(c.Seed * 5))
		n5 := c.Pick(2500, 30000)
		for k := 0; k < n5; k++ {
			var cell [9]int
			for x := range cell {
				cell[x] = r.Intn(5)
				if r.Intn(3) == 0 {
					cell[x] = ckNone
				}
			}
			conf := mixedGraphConfigN(3, func(i, j int) int { return cell[i*3+j] }, k%4 == 1)
			if k%5 == 2 {
				addInertParts(r, conf)
			}
			if k%7 == 3 {
				respellTagged(conf, k)
			}
			jobs = append(jobs, conf)
		}
		c.Set("five_kind_graphs_run", n5)
	}
	c.Set("mixed_kind_graphs_run", len(picks))
	c.Set("mixed_kind_graph_space", total)
	c.Set("mixed_kind_exhaustive", c.Thorough())
	// (c3) pairs of edges whose end points concatenate to the same text (a -> b_c and a_b -> c, with `_`, `-`, `.`), a cycle
	// through one of them, as services and as parameters
	for _, sep := range []string{"_", "-", "."} {
		X, XP, PV, V := "a", "a"+sep+"b", "b"+sep+"c", "c"
		for variant := 0; variant < 4; variant++ {
			conf := &cfg.Config{Meta: cfg.Meta{Pkg: cfg.P("gen"), Imports: []cfg.KS{{K: "pa", V: "fixt/pa"}}}}
			// edges X->PV and XP->V; the cycle goes through the second (variants 0, 2) or the first (1, 3) of them
			edges := map[string][]string{X: {PV}, XP: {V}}
			if variant%2 == 0 {
				edges[V] = []string{XP}
			} else {
				edges[PV] = []string{X}
			}
			for _, n := range []string{X, XP, PV, V} {
				if variant < 2 {
					sv := cfg.Service{Name: n, Constructor: cfg.P("pa.New")}
					for _, t := range edges[n] {
						sv.Args = append(sv.Args, cfg.Str("@"+t))
					}
					conf.Services = append(conf.Services, sv)
				} else {
					v := "v"
					for _, t := range edges[n] {
						v += "%" + t + "%"
					}
					conf.Params = append(conf.Params, cfg.KV{K: n, V: cfg.Str(v)})
				}
			}
			jobs = append(jobs, conf)
		}
	}
	// (c4) many cycles at once: complete digraphs on 5 and 6 services (84 and 409 elementary cycles) next to an independent
	// two-cycle of services and one of parameters: however long the report gets, every element on a cycle is shown in it
	for _, kn := range []int{5, 6} {
		conf := mixedGraphConfigN(kn, func(i, j int) int {
			if i != j {
				return ckAt
			}
			return ckNone
		}, false)
		conf.Services = append(conf.Services,
			cfg.Service{Name: "zz.left", Constructor: cfg.P("pa.New"), Args: []cfg.Val{cfg.Str("@zz.right")}},
			cfg.Service{Name: "zz.right", Constructor: cfg.P("pa.New"), Fields: []cfg.KV{{K: "F1", V: cfg.Str("@zz.left")}}})
		conf.Params = append(conf.Params, cfg.KV{K: "zp", V: cfg.Str("a%zq%")}, cfg.KV{K: "zq", V: cfg.Str("%zp%b")}, cfg.KV{K: "alone", V: cfg.Str("%alone%")})
		jobs = append(jobs, conf)
	}
	// (d) random sparse graphs
	nr := c.Pick(600, 8000)
	skipped := 0
	for k := 0; k < nr; k++ {
		r := rand.New(rand.NewSource(c.Seed*7 + int64(k)))
		n := 4 + r.Intn(9)
		p := 0.05 + r.Float64()*0.15
		collide := []string{"a", "a_b", "b", "b_c", "c", "a_b_c", "c_d", "d", "a-b", "b-c", "a.b", "b.c"}
		if k%4 == 3 {
			c07Names = collide
			if n > len(collide) {
				n = len(collide)
			}
			p = 0.12 + r.Float64()*0.15
		}
		conf := mixedGraphConfigN(n, func(i, j int) int {
			if r.Float64() < p {
				return 1 + r.Intn(4)
			}
			return ckNone
		}, k%2 == 0)
		c07Names = nil
		np := 3 + r.Intn(8)
		pname := func(i int) string { return fmt.Sprintf("q%d", i) }
		if k%4 == 3 {
			np = 4 + r.Intn(len(collide)-3)
			pname = func(i int) string { return "P" + collide[i] }
		}
		for i := 0; i < np; i++ {
			v := "v"
			for j := 0; j < np; j++ {
				if r.Float64() < p {
					for k := 0; k <= r.Intn(4); k++ {
						v += "-%" + pname(j) + "%"
					}
				}
			}
			conf.Params = append(conf.Params, cfg.KV{K: pname(i), V: cfg.Str(v)})
		}
		if k%3 == 2 {
			addInertParts(r, conf)
			inert++
		}
		// proviso: moderate number of cycles
		g := ref.BuildGraph(conf)
		if len(g.ServicesOnCycle()) > 6 || len(g.ParamsOnCycle()) > 6 {
			skipped++
			continue
		}
		if k%3 == 1 {
			// the same graphs with references to services / parameters that only exist at run time, built with the
			// --ignore-missing-* flags: what is a cycle does not depend on them
			for j := 0; j < 1+r.Intn(2); j++ {
				gen.Inject(r, conf, []string{"missing-service", "missing-param", "missing-mixed"}[r.Intn(3)], j)
			}
			flagged[len(jobs)] = true
		}
		jobs = append(jobs, conf)
	}
	c.Set("random_graphs_skipped_many_cycles", skipped)
	c.Set("graphs_with_inert_decorators_and_tags", inert)
	c.Set("random_graphs_with_run_time_only_dependencies", len(flagged))
	accepted := make([]bool, len(jobs))
	Par(len(jobs), 16, func(i int) {
		conf := jobs[i]
		dir := w.TempDir("c07")
		yaml := conf.YAML()
		_ = work.WriteFile(filepath.Join(dir, "in.yaml"), []byte(yaml))
		out := filepath.Join(dir, "out.go")
		args := []string{"build", "-i", "in.yaml", "-o", out}
		if flagged[i] {
			args = append(args, "--ignore-missing-services", "--ignore-missing-params")
		}
		var run cli.Run
		if i%4 == 1 {
			// the output path already holds what the tool generated a moment ago for another, valid configuration
			var ok bool
			if run, ok = cli.DoAfter(w, "", nil, dir, out, args...); ok {
				c.Add("runs_over_an_earlier_generated_output", 1)
			}
		} else if i%8 == 3 {
			// the configuration arrives through a named pipe (next to an empty one in a regular file)
			var seen bool
			if run, seen = cli.DoPiped(w, "", nil, dir, out, "in.yaml", yaml, args...); seen {
				c.Add("runs_with_the_configuration_read_from_a_pipe", 1)
			} else {
				c.Add("runs_with_a_pipe_the_tool_did_not_read_completely", 1)
			}
		} else {
			run = cli.Do(w, "", nil, dir, out, args...)
		}
		files := map[string]string{"input/in.yaml": yaml, "stdout.txt": run.Res.Stdout, "args.txt": strings.Join(args, " ")}
		for _, b := range run.Contract() {
			c.Side("C10,C12", "cli-contract:"+sigWords(b), b, files)
		}
		g := ref.BuildGraph(conf)
		edges := 0
		for _, m := range g.SvcEdges {
			edges += len(m)
		}
		for _, m := range g.ParamEdges {
			edges += len(m)
		}
		c.Eval(yaml, edges > 0)
		if len(g.ServicesOnCycle())+len(g.ParamsOnCycle()) > 0 {
			c.Add("cyclic_configurations", 1)
		} else {
			c.Add("acyclic_configurations", 1)
		}
		judgeCycles(c, conf, &run, files)
		accepted[i] = run.Res.Exit == 0 && !flagged[i]
		if i == 700 || i == 1300 {
			c.Sample(map[string]any{"config": yaml, "exit": run.Res.Exit, "cycle_lines": run.Rep.ErrorsOf("Circular dependencies"), "reference_services_on_cycle": keys(g.ServicesOnCycle()), "reference_params_on_cycle": keys(g.ParamsOnCycle())})
		}
	})
	// run-time half on a sample of accepted configurations
	lab, err := probe.NewLab(w)
	if err != nil {
		return err
	}
	var units []*probe.Unit
	var idx []int
	for i := range jobs {
		if accepted[i] {
			idx = append(idx, i)
		}
	}
	r := rand.New(rand.NewSource(c.Seed))
	r.Shuffle(len(idx), func(a, b int) { idx[a], idx[b] = idx[b], idx[a] })
	if lim := c.Pick(200, 2000); len(idx) > lim {
		idx = idx[:lim]
	}
	sort.Ints(idx)
	for _, i := range idx {
		conf := jobs[i]
		ops := []probe.Op{{Op: "new"}, {Op: "circular"}}
		for _, p := range conf.Params {
			ops = append(ops, probe.Op{Op: "param", Name: p.K})
		}
		for _, s := range conf.Services {
			ops = append(ops, probe.Op{Op: "get", Name: s.Name})
		}
		units = append(units, &probe.Unit{ID: idOf(i), Cfg: conf, Files: []probe.File{{Name: "gontainer.yaml", Content: conf.YAML()}}, Ops: ops})
	}
	if err := runUnits(c, lab, units, false); err != nil {
		return err
	}
	for _, u := range units {
		if !u.Compiled {
			c.Violate("does-not-compile:"+errClass(u.CompileErr), fmt.Sprintf("unit %s: %s", u.ID, firstLines(u.CompileErr, 6)), unitFiles(u))
			continue
		}
		for i, r := range u.Results {
			op := u.Ops[i]
			c.Add("runtime_ops_observed", 1)
			if r.Died {
				c.Violate("runtime-died", fmt.Sprintf("unit %s op %s %s: the process ended (unbounded recursion?): %s", u.ID, op.Op, op.Name, firstLines(r.Panic, 8)), unitFiles(u))
				break
			}
			if op.Op == "circular" && !r.OK {
				c.Violate("runtime-circular-deps", fmt.Sprintf("unit %s: accepted container reports circular dependencies: %s", u.ID, r.Err), unitFiles(u))
			}
			if strings.Contains(r.Err, "circular") {
				c.Violate("runtime-circular-error", fmt.Sprintf("unit %s op %s %s: %s", u.ID, op.Op, op.Name, r.Err), unitFiles(u))
			}
		}
	}
	return nil
}
