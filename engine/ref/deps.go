package ref

import (
	"sort"

	"verif/cfg"
)

// Reference is one written reference inside a configuration (B.5).
type Reference struct {
	FromKind string // param | service | decorator
	From     string // parameter/service name, or decorator index as "#i"
	DecTag   string // decorator: its tag
	Pos      string // ctorarg | callarg | field | decarg | param
	Kind     string // param | service | tag
	Name     string
}

// PatternRefs lists the parameter names a string references (ignores rejected patterns).
func PatternRefs(s string) []string {
	chunks, bad := ParsePattern(s, func(string) bool { return true })
	if bad != "" {
		return nil
	}
	var out []string
	for _, c := range chunks {
		if c.Kind == "ref" {
			out = append(out, c.Text)
		}
	}
	return out
}

func argRefs(v cfg.Val, fromKind, from, tag, pos string) []Reference {
	a := Classify(v)
	var out []Reference
	switch a.Kind {
	case ArgService:
		if !a.Bad {
			out = append(out, Reference{fromKind, from, tag, pos, "service", a.Expr})
		}
	case ArgTagged:
		if !a.Bad {
			out = append(out, Reference{fromKind, from, tag, pos, "tag", a.Expr})
		}
	case ArgPattern:
		for _, n := range PatternRefs(a.Expr) {
			out = append(out, Reference{fromKind, from, tag, pos, "param", n})
		}
	}
	return out
}

// References enumerates every reference of the (merged) configuration. Todo services are
// bare placeholders: their other attributes are not part of the configuration's meaning.
func References(c *cfg.Config) []Reference {
	var out []Reference
	for _, p := range c.Params {
		if p.V.Kind == "str" {
			for _, n := range PatternRefs(p.V.S) {
				out = append(out, Reference{"param", p.K, "", "param", "param", n})
			}
		}
	}
	for _, s := range c.Services {
		if s.IsTodo() {
			continue
		}
		for _, a := range s.Args {
			out = append(out, argRefs(a, "service", s.Name, "", "ctorarg")...)
		}
		for _, cl := range s.Calls {
			for _, a := range cl.Args {
				out = append(out, argRefs(a, "service", s.Name, "", "callarg")...)
			}
		}
		for _, f := range s.Fields {
			out = append(out, argRefs(f.V, "service", s.Name, "", "field")...)
		}
	}
	for i, d := range c.Decorators {
		for _, a := range d.Args {
			out = append(out, argRefs(a, "decorator", "#"+itoa(i), d.Tag, "decarg")...)
		}
	}
	return out
}

func itoa(i int) string {
	if i == 0 {
		return "0"
	}
	neg := i < 0
	if neg {
		i = -i
	}
	var b []byte
	for i > 0 {
		b = append([]byte{byte('0' + i%10)}, b...)
		i /= 10
	}
	if neg {
		b = append([]byte{'-'}, b...)
	}
	return string(b)
}

// Graph is the dependency relation of C07: parameter → parameter; service → service via
// @name, via every service carrying a tag requested with !tagged, and via the dependencies
// of every decorator attached to one of the service's own tags.
type Graph struct {
	ParamEdges map[string]map[string]bool
	SvcEdges   map[string]map[string]bool
	Services   []string
	Params     []string
}

func taggedWith(c *cfg.Config, tag string) []string {
	var out []string
	for _, s := range c.Services {
		if s.IsTodo() {
			continue
		}
		for _, t := range s.Tags {
			if t.Name == tag {
				out = append(out, s.Name)
				break
			}
		}
	}
	return out
}

func BuildGraph(c *cfg.Config) *Graph {
	g := &Graph{ParamEdges: map[string]map[string]bool{}, SvcEdges: map[string]map[string]bool{}}
	for _, p := range c.Params {
		g.Params = append(g.Params, p.K)
		g.ParamEdges[p.K] = map[string]bool{}
	}
	for _, s := range c.Services {
		g.Services = append(g.Services, s.Name)
		g.SvcEdges[s.Name] = map[string]bool{}
	}
	refs := References(c)
	addTargets := func(from string, r Reference) {
		switch r.Kind {
		case "service":
			g.SvcEdges[from][r.Name] = true
		case "tag":
			for _, t := range taggedWith(c, r.Name) {
				g.SvcEdges[from][t] = true
			}
		}
	}
	for _, r := range refs {
		switch r.FromKind {
		case "param":
			if r.Kind == "param" {
				g.ParamEdges[r.From][r.Name] = true
			}
		case "service":
			addTargets(r.From, r)
		case "decorator":
			for _, s := range taggedWith(c, r.DecTag) {
				addTargets(s, r)
			}
		}
	}
	return g
}

// sccs returns, for a node set and edge relation, the set of nodes lying on a cycle.
func onCycle(nodes []string, edges map[string]map[string]bool) map[string]bool {
	index := map[string]int{}
	low := map[string]int{}
	onStack := map[string]bool{}
	var stack []string
	res := map[string]bool{}
	n := 0
	var strong func(v string)
	strong = func(v string) {
		index[v] = n
		low[v] = n
		n++
		stack = append(stack, v)
		onStack[v] = true
		for w := range edges[v] {
			if _, declared := edges[w]; !declared {
				continue // dangling target: not a node
			}
			if _, seen := index[w]; !seen {
				strong(w)
				if low[w] < low[v] {
					low[v] = low[w]
				}
			} else if onStack[w] && index[w] < low[v] {
				low[v] = index[w]
			}
		}
		if low[v] == index[v] {
			var comp []string
			for {
				w := stack[len(stack)-1]
				stack = stack[:len(stack)-1]
				onStack[w] = false
				comp = append(comp, w)
				if w == v {
					break
				}
			}
			if len(comp) > 1 || edges[v][v] {
				for _, w := range comp {
					res[w] = true
				}
			}
		}
	}
	sorted := append([]string(nil), nodes...)
	sort.Strings(sorted)
	for _, v := range sorted {
		if _, seen := index[v]; !seen {
			strong(v)
		}
	}
	return res
}

func (g *Graph) ParamsOnCycle() map[string]bool { return onCycle(g.Params, g.ParamEdges) }
func (g *Graph) ServicesOnCycle() map[string]bool {
	return onCycle(g.Services, g.SvcEdges)
}

// Reach is the transitive closure from one service (excluding itself unless on a cycle).
func (g *Graph) Reach(s string) map[string]bool {
	seen := map[string]bool{}
	var walk func(v string)
	walk = func(v string) {
		for w := range g.SvcEdges[v] {
			if _, declared := g.SvcEdges[w]; !declared {
				continue
			}
			if !seen[w] {
				seen[w] = true
				walk(w)
			}
		}
	}
	walk(s)
	return seen
}

func declaredScope(s *cfg.Service) string {
	if s == nil || s.Scope == nil || s.IsTodo() {
		return ""
	}
	return *s.Scope
}

// ScopeErrors lists the (shared, contextual) pairs of B.6.
func ScopeErrors(c *cfg.Config, g *Graph) [][2]string {
	var out [][2]string
	for i := range c.Services {
		s := &c.Services[i]
		if declaredScope(s) != "shared" {
			continue
		}
		var ts []string
		for t := range g.Reach(s.Name) {
			// a todo placeholder keeps the scope it is declared with as far as this rule goes (it is a declared-contextual
			// service; whatever replaces it at run time has to honour that)
			if ts2 := c.Service(t); ts2 != nil && ts2.Scope != nil && *ts2.Scope == "contextual" {
				ts = append(ts, t)
			}
		}
		sort.Strings(ts)
		for _, t := range ts {
			out = append(out, [2]string{s.Name, t})
		}
	}
	return out
}

// EffectiveScope: declared scope, else contextual iff a declared-contextual service is reachable, else shared.
func EffectiveScope(c *cfg.Config, g *Graph, name string) string {
	s := c.Service(name)
	if d := declaredScope(s); d != "" {
		return d
	}
	for t := range g.Reach(name) {
		if declaredScope(c.Service(t)) == "contextual" {
			return "contextual"
		}
	}
	return "shared"
}

// Dangling lists references whose target is not declared.
func Dangling(c *cfg.Config) []Reference {
	params := map[string]bool{}
	for _, p := range c.Params {
		params[p.K] = true
	}
	svcs := map[string]bool{}
	for _, s := range c.Services {
		svcs[s.Name] = true
	}
	var out []Reference
	for _, r := range References(c) {
		switch r.Kind {
		case "param":
			if !params[r.Name] {
				out = append(out, r)
			}
		case "service":
			if !svcs[r.Name] {
				out = append(out, r)
			}
		}
	}
	return out
}
