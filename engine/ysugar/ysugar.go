// Package ysugar rewrites a YAML document into an equivalent one that uses the less-travelled parts of
// the language: anchors and aliases (for scalars and for whole collections), merge keys (`<<: *a`,
// `<<: [*a, *b]`), explicit core-schema tags (`!!str`, `!!int`, `!!map`, ...), literal block scalars and
// comments. Every result is validated before it is used: both texts are decoded with yaml.v3 into plain
// values and must be equal, otherwise the original text is returned (ok=false).
package ysugar

import (
	"bytes"
	"fmt"
	"math/rand"
	"strings"
	"unicode/utf16"
	"unicode/utf8"

	"gopkg.in/yaml.v3"
)

type Stats struct {
	Aliases, Merges, Tags, Comments, Blocks int
}

func (s Stats) Any() bool { return s.Aliases+s.Merges+s.Tags+s.Blocks > 0 }

type sugar struct {
	r      *rand.Rand
	n      int
	seen   map[string]*yaml.Node // canonical form -> first surviving node in document order
	maps   []*yaml.Node          // surviving mapping nodes visited so far
	st     Stats
	pAlias float64
	pMerge float64
}

func canon(n *yaml.Node) string {
	var sb strings.Builder
	var w func(n *yaml.Node)
	w = func(n *yaml.Node) {
		switch n.Kind {
		case yaml.AliasNode:
			w(n.Alias)
		case yaml.ScalarNode:
			fmt.Fprintf(&sb, "s(%s,%q)", n.ShortTag(), n.Value)
		case yaml.SequenceNode:
			sb.WriteString("[")
			for _, c := range n.Content {
				w(c)
				sb.WriteString(",")
			}
			sb.WriteString("]")
		case yaml.MappingNode:
			sb.WriteString("{")
			for _, c := range n.Content {
				w(c)
				sb.WriteString(",")
			}
			sb.WriteString("}")
		}
	}
	w(n)
	return sb.String()
}

func (s *sugar) anchor(n *yaml.Node) string {
	if n.Anchor == "" {
		s.n++
		n.Anchor = fmt.Sprintf("a%d", s.n)
	}
	return n.Anchor
}

func (s *sugar) alias(to *yaml.Node) *yaml.Node {
	return &yaml.Node{Kind: yaml.AliasNode, Alias: to, Value: s.anchor(to)}
}

func hasMerge(m *yaml.Node) bool {
	for i := 0; i+1 < len(m.Content); i += 2 {
		if m.Content[i].Value == "<<" && m.Content[i].Kind == yaml.ScalarNode && m.Content[i].Style == 0 {
			return true
		}
	}
	return false
}

// pairs returns key -> canonical value of a mapping with plain scalar keys (nil if a key is not a scalar or repeats).
func pairs(m *yaml.Node) map[string]string {
	out := map[string]string{}
	for i := 0; i+1 < len(m.Content); i += 2 {
		k := m.Content[i]
		if k.Kind != yaml.ScalarNode || k.Value == "<<" {
			return nil
		}
		if _, dup := out[k.Value]; dup {
			return nil
		}
		out[k.Value] = canon(m.Content[i+1])
	}
	return out
}

// tryMerge rewrites mapping m as `{<<: *base, ...overrides}` for an earlier mapping whose keys are a subset of m's keys.
func (s *sugar) tryMerge(m *yaml.Node) {
	if len(m.Content) < 2 || hasMerge(m) || s.r.Float64() >= s.pMerge {
		return
	}
	mp := pairs(m)
	if mp == nil {
		return
	}
	var cands [][]*yaml.Node
	var single []*yaml.Node
	for _, b := range s.maps {
		if b == m || len(b.Content) == 0 || hasMerge(b) {
			continue
		}
		bp := pairs(b)
		if bp == nil || len(bp) > len(mp) {
			continue
		}
		sub, same := true, 0
		for k, v := range bp {
			mv, ok := mp[k]
			if !ok {
				sub = false
				break
			}
			if mv == v {
				same++
			}
		}
		if sub && same > 0 {
			single = append(single, b)
		}
	}
	if len(single) == 0 {
		return
	}
	base := single[s.r.Intn(len(single))]
	cands = append(cands, []*yaml.Node{base})
	if len(single) > 1 && s.r.Intn(3) == 0 {
		other := single[s.r.Intn(len(single))]
		if other != base {
			cands = [][]*yaml.Node{{base, other}}
		}
	}
	bases := cands[0]
	// value inherited for key k: the first base in the list that has it wins (YAML merge semantics)
	inherited := map[string]string{}
	for _, b := range bases {
		for k, v := range pairs(b) {
			if _, ok := inherited[k]; !ok {
				inherited[k] = v
			}
		}
	}
	var content []*yaml.Node
	key := &yaml.Node{Kind: yaml.ScalarNode, Value: "<<"}
	if s.r.Intn(6) == 0 {
		key.Tag = "!!merge" // written out explicitly
	}
	var val *yaml.Node
	if len(bases) == 1 {
		val = s.alias(bases[0])
	} else {
		val = &yaml.Node{Kind: yaml.SequenceNode, Tag: "!!seq", Style: yaml.FlowStyle}
		for _, b := range bases {
			val.Content = append(val.Content, s.alias(b))
		}
	}
	mergeFirst := s.r.Intn(4) != 0
	if mergeFirst {
		content = append(content, key, val)
	}
	for i := 0; i+1 < len(m.Content); i += 2 {
		k, v := m.Content[i], m.Content[i+1]
		if inherited[k.Value] == canon(v) && s.r.Intn(5) != 0 {
			continue // inherited through the merge key
		}
		content = append(content, k, v)
	}
	if !mergeFirst {
		content = append(content, key, val)
	}
	m.Content = content
	s.st.Merges++
}

func (s *sugar) walk(slot **yaml.Node, isKey bool) {
	n := *slot
	if n.Kind == yaml.AliasNode {
		return
	}
	if !isKey {
		c := canon(n)
		trivial := n.Kind == yaml.ScalarNode && len(n.Value) == 0 && n.ShortTag() == "!!null"
		if first, ok := s.seen[c]; ok && !trivial && s.r.Float64() < s.pAlias {
			*slot = s.alias(first)
			s.st.Aliases++
			return
		} else if !ok {
			s.seen[c] = n
		}
	}
	switch n.Kind {
	case yaml.MappingNode:
		s.tryMerge(n)
		for i := 0; i+1 < len(n.Content); i += 2 {
			s.walk(&n.Content[i], true)
			s.walk(&n.Content[i+1], false)
		}
		s.maps = append(s.maps, n)
		if s.r.Intn(12) == 0 && n.Style&yaml.FlowStyle == 0 {
			n.Style |= yaml.TaggedStyle
			s.st.Tags++
		}
	case yaml.SequenceNode:
		for i := range n.Content {
			s.walk(&n.Content[i], false)
		}
		if s.r.Intn(12) == 0 && n.Style&yaml.FlowStyle == 0 {
			n.Style |= yaml.TaggedStyle
			s.st.Tags++
		}
	case yaml.ScalarNode:
		if isKey {
			if s.r.Intn(10) == 0 && n.Value != "<<" {
				n.Style = yaml.DoubleQuotedStyle
			}
			return
		}
		switch s.r.Intn(10) {
		case 0:
			// explicit core-schema tag, the one the scalar resolves to anyway
			if t := n.ShortTag(); t == "!!str" || t == "!!int" || t == "!!float" || t == "!!bool" || t == "!!null" {
				n.Tag = t
				n.Style |= yaml.TaggedStyle
				s.st.Tags++
			}
		case 1:
			if n.ShortTag() == "!!str" && strings.Contains(n.Value, "\n") && !strings.ContainsAny(n.Value, "\x00\x01\t\r") && !strings.HasPrefix(n.Value, " ") {
				n.Style = yaml.LiteralStyle
				s.st.Blocks++
			}
		case 2:
			n.LineComment = "# " + []string{"note", "see *a1", "<<: not a merge", "&x"}[s.r.Intn(4)]
			s.st.Comments++
		}
	}
}

func decode(text string) (string, error) {
	var v any
	if err := yaml.Unmarshal([]byte(text), &v); err != nil {
		return "", err
	}
	return fmt.Sprintf("%#v", v), nil
}

// Sugar returns an equivalent spelling of the document. intensity in (0,1] scales how much is rewritten.
func Sugar(r *rand.Rand, text string, intensity float64) (string, Stats, bool) {
	var doc yaml.Node
	if err := yaml.Unmarshal([]byte(text), &doc); err != nil || doc.Kind != yaml.DocumentNode || len(doc.Content) != 1 {
		return text, Stats{}, false
	}
	s := &sugar{r: r, seen: map[string]*yaml.Node{}, pAlias: 0.5 * intensity, pMerge: 0.7 * intensity}
	s.walk(&doc.Content[0], false)
	var buf bytes.Buffer
	enc := yaml.NewEncoder(&buf)
	enc.SetIndent(2)
	if err := enc.Encode(&doc); err != nil {
		return text, Stats{}, false
	}
	_ = enc.Close()
	out := buf.String()
	a, e1 := decode(text)
	b, e2 := decode(out)
	if e1 != nil || e2 != nil || a != b {
		return text, Stats{}, false
	}
	return out, s.st, true
}

// Recode returns the document in another character encoding YAML allows: 0 = UTF-8 with byte order mark, 1 = UTF-16 little endian
// with BOM, 2 = UTF-16 big endian with BOM. Validated like Sugar: both byte strings must decode to the same value.
func Recode(text string, mode int) ([]byte, bool) {
	if !utf8.ValidString(text) || strings.ContainsRune(text, 0) || strings.ContainsRune(text, 0xFEFF) {
		return []byte(text), false
	}
	var out []byte
	switch mode % 3 {
	case 0:
		out = append([]byte{0xEF, 0xBB, 0xBF}, text...)
	case 1:
		out = []byte{0xFF, 0xFE}
		for _, u := range utf16.Encode([]rune(text)) {
			out = append(out, byte(u), byte(u>>8))
		}
	default:
		out = []byte{0xFE, 0xFF}
		for _, u := range utf16.Encode([]rune(text)) {
			out = append(out, byte(u>>8), byte(u))
		}
	}
	a, e1 := decode(text)
	var v any
	e2 := yaml.Unmarshal(out, &v)
	if e1 != nil || e2 != nil || a != fmt.Sprintf("%#v", v) {
		return []byte(text), false
	}
	return out, true
}

// Markers puts explicit document markers around the (single) document of the text: `---` in front, `...` behind, or a trailing
// `---` that opens a second document with nothing in it. Validated: the first document decodes to the same value and no further
// document has content.
func Markers(text string, mode int) (string, bool) {
	if !strings.HasSuffix(text, "\n") || strings.HasPrefix(text, "---") || strings.HasPrefix(text, "%") {
		return text, false
	}
	var out string
	switch mode % 5 {
	case 0:
		out = "---\n" + text
	case 1:
		out = "--- # the one document\n" + text + "...\n"
	case 2:
		out = text + "...\n"
	case 3:
		out = text + "---\n"
	default:
		out = "---\n" + text + "---\n# nothing more\n"
	}
	a, e1 := decode(text)
	dec := yaml.NewDecoder(strings.NewReader(out))
	var first any
	if err := dec.Decode(&first); err != nil || e1 != nil || fmt.Sprintf("%#v", first) != a {
		return text, false
	}
	for {
		var more any
		err := dec.Decode(&more)
		if err != nil {
			if err.Error() == "EOF" {
				break
			}
			return text, false
		}
		if more != nil {
			return text, false
		}
	}
	return out, true
}
