package mon

import (
	"fmt"
	"math/rand"
	"os"
	"path/filepath"
	"sort"
	"strings"

	"verif/cfg"
	"verif/cli"
	"verif/gen"
	"verif/probe"
	"verif/ref"
	"verif/work"
)

func init() { Register("C03", "exploration", checkC03) }

var c03Alphabet = []string{"%", "a", "1", ".", "_", "-", "(", ")", `"`, ",", " ", "é"}

// c03Targets: every parameter name of length <=4 over {a,1,.,-,_} is declared, so that every
// short reference of the exhaustive strings resolves; values cover every literal type.
func c03Targets() []cfg.KV {
	sym := []string{"a", "1", ".", "-", "_"}
	var names []string
	var rec func(p string, d int)
	rec = func(p string, d int) {
		if p != "" && ref.IsYamlToken(p) {
			names = append(names, p)
		}
		if d == 4 {
			return
		}
		for _, s := range sym {
			rec(p+s, d+1)
		}
	}
	rec("", 0)
	sort.Strings(names)
	var out []cfg.KV
	for i, n := range names {
		var v cfg.Val
		switch i % 7 {
		case 0:
			v = cfg.Int(int64(7 + i))
		case 1:
			v = cfg.Str(fmt.Sprintf("S%d", i))
		case 2:
			v = cfg.Bool(i%2 == 0)
		case 3:
			v = cfg.Null()
		case 4:
			v = cfg.Float(2.5+float64(i), "")
		case 5:
			v = cfg.Uint(18446744073709551615 - uint64(i))
		default:
			v = cfg.Int(-int64(i))
		}
		out = append(out, cfg.KV{K: n, V: v})
	}
	return out
}

var c03TargetsCache map[string]bool

func c03TargetSet() map[string]bool {
	if c03TargetsCache == nil {
		m := map[string]bool{}
		for _, kv := range c03Targets() {
			m[kv.K] = true
		}
		c03TargetsCache = m
	}
	return c03TargetsCache
}

func allStrings(maxLen int) []string {
	var out []string
	var rec func(p string, d int)
	rec = func(p string, d int) {
		out = append(out, p)
		if d == maxLen {
			return
		}
		for _, s := range c03Alphabet {
			rec(p+s, d+1)
		}
	}
	rec("", 0)
	return out
}

type c03batch struct {
	id      string
	strs    []string
	asArgs  bool // strings are constructor arguments of one service each, instead of parameter values
	fnA     bool // a function named `a` is registered
	law     bool // strings are %-doubled forms: each must evaluate to origs[i]
	rawBOM  bool // the strings come first in the file and every U+FEFF in them is written raw (see text)
	origs   []string
}

func (b *c03batch) name(i int) string {
	if b.asArgs {
		return fmt.Sprintf("s%04d", i)
	}
	return fmt.Sprintf("x%04d", i)
}

func (b *c03batch) config(keep func(i int) bool) *cfg.Config {
	c := &cfg.Config{Meta: cfg.Meta{Pkg: cfg.P("gen"), Imports: []cfg.KS{{K: "pa", V: "fixt/pa"}}}}
	if b.fnA {
		c.Meta.Functions = []cfg.KS{{K: "a", V: "pa.FnEcho"}}
	}
	if !b.rawBOM {
		c.Params = c03Targets()
	}
	defer func() {
		if b.rawBOM {
			c.Params = append(c.Params, c03Targets()...)
		}
	}()
	for i, s := range b.strs {
		if keep != nil && !keep(i) {
			continue
		}
		if b.asArgs {
			c.Services = append(c.Services, cfg.Service{Name: b.name(i), Constructor: cfg.P("pa.New"), Args: []cfg.Val{cfg.Str(s)}})
		} else {
			c.Params = append(c.Params, cfg.KV{K: b.name(i), V: cfg.Str(s)})
		}
	}
	return c
}

// text is the YAML of a batch configuration. With rawBOM every U+FEFF of the (backslash-free) strings is written as the
// character itself instead of the escape the writer uses everywhere else: inside a quoted scalar it is content, not a byte order
// mark. Only this one small batch does so, with the strings in the first 400 bytes of the file: the YAML library the tool uses
// fails on a raw U+FEFF that ends 2 bytes before a 512-byte boundary of its read buffer (DESIGN, round 13), which is not
// gontainer's code and not what this check is about.
func (b *c03batch) text(conf *cfg.Config) string {
	y := conf.YAML()
	if b.rawBOM {
		y = strings.ReplaceAll(y, `\ufeff`, "\ufeff")
	}
	return y
}

// refVerdict: "accept", "reject" (pattern level, reported in the Compile step), "badgo" (call arguments are
// not a Go expression list: the file cannot be formatted) or "unjudged".
func (b *c03batch) refVerdict(s string) string {
	if b.asArgs {
		if a := ref.Classify(cfg.Str(s)); a.Kind != ref.ArgPattern {
			return "unjudged" // a special argument form, not a pattern
		}
	}
	known := func(fn string) bool {
		return fn == "env" || fn == "envInt" || fn == "todo" || (b.fnA && fn == "a")
	}
	chunks, bad := ref.ParsePattern(s, known)
	if bad != "" {
		return "reject"
	}
	for _, ch := range chunks {
		if ch.Kind == "ref" && !c03TargetSet()[ch.Text] {
			return "unjudged" // reference to a parameter this workload does not declare
		}
		if ch.Kind == "call" {
			if strings.ContainsAny(ch.Args, "`/\\") {
				return "unjudged"
			}
			if _, ok := ref.ParseArgs(ch.Args); !ok {
				if ref.IsGoExprList(ch.Args) {
					return "unjudged" // valid Go but not plain literals: compile-time meaning is the user's business
				}
				return "badgo"
			}
			if ch.Text != "a" {
				return "unjudged" // env/envInt/todo with arbitrary arguments: arity and types are the user's business
			}
		}
	}
	return "accept"
}

func namesInCompileErrors(run *cli.Run) map[string]bool {
	out := map[string]bool{}
	for _, d := range run.Rep.List {
		if n := cli.Names(d); len(n) > 0 {
			out[n[0]] = true
		}
	}
	return out
}

func checkC03(c *Ctx) error {
	maxLen := c.Pick(4, 5)
	argLen := c.Pick(3, 4)
	c.Rule = fmt.Sprintf("(a) every string of length <=%d over {%%, a, 1, ., _, -, (, ), \", ',', ' ', é} as a parameter value, in batches of 1000 parameters per configuration (with and without a registered function `a`; every parameter name of length <=4 over {a,1,.,-,_} is declared with values of every literal type so that references resolve): pass 1 through the real binary gives the rejected set (diagnostics name the parameter), compared with the reference chunker/tokenizer; pass 2 keeps the accepted ones, is compiled and GetParam of each is compared (type and value) with the reference evaluator; (b) every string of length <=%d as the only constructor argument of a service; (c) seeded random Unicode strings (quotes, backslashes, newlines, C0/C1 controls, U+2028, astral runes, %% signs) as values, and their %%-doubled forms which must evaluate to the original string (law); (d) structured chunk sequences mixing literals, %%%%, references to every literal type and calls of fixture functions / env / envInt / todo with set, unset and non-numeric environment. distinct = distinct string (per position); non-trivial = the string contains a %% sign", maxLen, argLen)
	c.Assumptions = []string{"reference chunker/tokenizer/evaluator engine/ref (B.3)", "call arguments that are valid Go but not plain literals, and env/envInt/todo with arbitrary arguments, are not judged", "the string cast of non-finite floats is not judged"}
	lab, err := probe.NewLab(c.W)
	if err != nil {
		return err
	}
	w := c.W
	var batches []*c03batch
	all := allStrings(maxLen)
	c.Set("exhaustive_strings_as_parameters", len(all))
	for i := 0; i < len(all); i += 1000 {
		j := i + 1000
		if j > len(all) {
			j = len(all)
		}
		batches = append(batches, &c03batch{id: fmt.Sprintf("p%03d", i/1000), strs: all[i:j], fnA: (i/1000)%2 == 0})
	}
	args := allStrings(argLen)
	c.Set("exhaustive_strings_as_arguments", len(args))
	for i := 0; i < len(args); i += 300 {
		j := i + 300
		if j > len(args) {
			j = len(args)
		}
		batches = append(batches, &c03batch{id: fmt.Sprintf("a%03d", i/300), strs: args[i:j], asArgs: true, fnA: (i/300)%2 == 1})
	}
	// (c) random unicode strings and their doubled forms
	r := rand.New(rand.NewSource(c.Seed))
	pool := []rune{'%', '%', '%', 'a', 'b', '1', ' ', '"', '\'', '\\', '\n', '\t', '\r', 0x01, 0x1b, 0x7f, 0x85, 0xa0, 0x2028, 0x2029, 0xfeff, 'é', 'ß', '日', '𝄞', '😀', '(', ')', ',', '.', '-', '_', '`', '$', '@', '!', '#', '{', '}', '[', ']', ':', '/', '&', '*', '<', '>', '|', '~', '^', '=', '+', ';', '?'}
	nRand := c.Pick(2000, 40000)
	var randStrs, doubled []string
	for k := 0; k < nRand; k++ {
		n := 1 + r.Intn(12)
		var sb strings.Builder
		for i := 0; i < n; i++ {
			sb.WriteRune(pool[r.Intn(len(pool))])
		}
		s := sb.String()
		randStrs = append(randStrs, s)
		doubled = append(doubled, strings.ReplaceAll(s, "%", "%%"))
	}
	for i := 0; i < len(randStrs); i += 500 {
		j := i + 500
		if j > len(randStrs) {
			j = len(randStrs)
		}
		batches = append(batches, &c03batch{id: fmt.Sprintf("r%03d", i/500), strs: randStrs[i:j], fnA: true})
		batches = append(batches, &c03batch{id: fmt.Sprintf("d%03d", i/500), strs: doubled[i:j], law: true, origs: randStrs[i:j]})
		if (i/500)%4 == 0 {
			batches = append(batches, &c03batch{id: fmt.Sprintf("q%03d", i/500), strs: doubled[i:j], law: true, origs: randStrs[i:j], asArgs: true})
		}
	}
	// a raw U+FEFF inside a scalar is a character of the string like any other (round 13, S242)
	{
		bo := []string{"a\ufeffb", "\ufeff", "x%\ufeffy%z", "\ufeff\ufeff%", "é\ufeff日", "%\ufeff%"}
		var bd []string
		for _, s := range bo {
			bd = append(bd, strings.ReplaceAll(s, "%", "%%"))
		}
		batches = append(batches, &c03batch{id: "bom0", strs: bd, law: true, origs: bo, rawBOM: true})
	}
	c.Set("random_unicode_strings", nRand)
	// ---- pass 1: rejected sets
	type p1 struct {
		run      cli.Run
		rejected map[string]bool
	}
	pass1 := make([]p1, len(batches))
	Par(len(batches), 16, func(bi int) {
		b := batches[bi]
		dir := w.TempDir("c03")
		yaml := b.text(b.config(func(i int) bool { return b.refVerdict(b.strs[i]) != "unjudged" }))
		_ = work.WriteFile(filepath.Join(dir, "in.yaml"), []byte(yaml))
		out := filepath.Join(dir, "out.go")
		run := cli.Do(w, "", nil, dir, out, "build", "-i", "in.yaml", "-o", out)
		pass1[bi] = p1{run, namesInCompileErrors(&run)}
	})
	var units []*probe.Unit
	unitBatch := map[string]*c03batch{}
	for bi, b := range batches {
		run := pass1[bi].run
		files := map[string]string{"stdout.txt": run.Res.Stdout, "batch.txt": fmt.Sprintf("%s asArgs=%v fnA=%v law=%v", b.id, b.asArgs, b.fnA, b.law)}
		for _, br := range run.Contract() {
			c.Side("C10,C12", "cli-contract:"+sigWords(br), br, files)
		}
		top := run.Rep.FailingTop()
		if top != nil && top.Name != "Compile" {
			// with every pattern-level reject inside Compile, a failure elsewhere means a rejected pattern slipped through or call arguments broke the formatter;
			// handled below by pass 2 on the accepted subset
			c.Add("pass1_failed_outside_compile", 1)
		}
		anyReject := false
		for i, s := range b.strs {
			v := b.refVerdict(s)
			name := b.name(i)
			c.Eval(fmt.Sprintf("%v|%v|%s", b.asArgs, b.fnA, s), strings.Contains(s, "%"))
			if v == "unjudged" {
				c.Add("strings_unjudged", 1)
				continue
			}
			if v == "reject" {
				anyReject = true
			}
			if top == nil || top.Name == "Compile" {
				got := pass1[bi].rejected[name]
				if v == "reject" && !got {
					c.Violate("pattern-not-rejected:"+posOf(b), fmt.Sprintf("batch %s: %q (as %s) must be rejected (unbalanced %%, unknown function or malformed token) but no diagnostic names it", b.id, s, name), map[string]string{"string.txt": s, "stdout.txt": firstLines(run.Res.Stdout, 60)})
				}
				if v != "reject" && got {
					c.Violate("pattern-rejected:"+posOf(b), fmt.Sprintf("batch %s: %q (as %s) is a valid pattern but a diagnostic names it: %s", b.id, s, name, diagFor(&run, name)), map[string]string{"string.txt": s})
				}
			}
			if b.law && v != "accept" {
				c.Violate("doubled-form-not-accepted", fmt.Sprintf("%%-doubled string %q is not accepted by the reference (harness) — verdict %s", s, v), nil)
			}
		}
		if !anyReject && top != nil && top.Name == "Compile" {
			c.Violate("batch-rejected-without-reason:"+posOf(b), fmt.Sprintf("batch %s: no string is rejected by the reference but Compile failed: %v", b.id, head(run.Rep.List, 3)), files)
		}
		// ---- pass 2 unit: accepted strings only
		bb := b
		keep := func(i int) bool { return bb.refVerdict(bb.strs[i]) == "accept" }
		conf := b.config(keep)
		var ops []probe.Op
		ops = append(ops, probe.Op{Op: "new"})
		for i := range b.strs {
			if !keep(i) {
				continue
			}
			if b.asArgs {
				ops = append(ops, probe.Op{Op: "get", Name: b.name(i)})
			} else {
				ops = append(ops, probe.Op{Op: "param", Name: b.name(i)})
			}
		}
		u := &probe.Unit{ID: "c" + b.id, Cfg: conf, Files: []probe.File{{Name: "gontainer.yaml", Content: b.text(conf)}}, Ops: ops}
		units = append(units, u)
		unitBatch[u.ID] = b
	}
	// (d) structured chunk sequences via the behaviour generator (parameters only matter here)
	nStruct := c.Pick(150, 2500)
	for i := 0; i < nStruct; i++ {
		rr := rand.New(rand.NewSource(c.Seed*31337 + int64(i)))
		o := gen.DefaultOpts()
		o.MaxServices = 2
		o.Scopes = false
		o.Decorators = false
		o.HostileAlias = i%3 == 1 // functions imported through aliases named like the packages the generated code itself imports (fmt, os, errors, ...)
		conf := gen.Behaviour(rr, o)
		// more parameters: every shape
		g := gen.NewPatternGen(rr, conf)
		for k := 0; k < 25; k++ {
			conf.Params = append(conf.Params, cfg.KV{K: fmt.Sprintf("extra%d", k), V: cfg.Str(g.Pattern())})
		}
		units = append(units, &probe.Unit{ID: fmt.Sprintf("cs%04d", i), Cfg: conf, Files: []probe.File{{Name: "gontainer.yaml", Content: conf.YAML()}}, Ops: StdOps(conf, rr, false)})
	}
	c.Set("structured_configurations", nStruct)
	if err := runUnits(c, lab, units, false); err != nil {
		return err
	}
	for _, u := range units {
		files := unitFiles(u)
		b := unitBatch[u.ID]
		if !u.Accepted {
			c.Violate("accepted-subset-rejected:"+sigWords(rejectReason(u)), fmt.Sprintf("unit %s: the strings the reference accepts were rejected together: %s", u.ID, firstLines(rejectReason(u), 5)), files)
			continue
		}
		if !u.Compiled {
			c.Violate("does-not-compile:"+errClass(u.CompileErr), fmt.Sprintf("unit %s: %s", u.ID, firstLines(u.CompileErr, 6)), files)
			continue
		}
		if len(u.Results) == 0 {
			c.Violate("probe:"+sigWords(u.ProbeErr), fmt.Sprintf("unit %s: %s", u.ID, u.ProbeErr), files)
			continue
		}
		exp := RunModel(u.Cfg, u.Ops, nil)
		mm, judged := CompareHistory(u, exp, false)
		c.Add("evaluations_compared", judged)
		for _, m := range mm {
			files["mismatch.txt"] = m.Text
			c.Violate("evaluation:"+m.Kind+":"+u.Ops[m.Op].Op, fmt.Sprintf("unit %s: %s", u.ID, m.Text), files)
		}
		// the law: doubled form evaluates to the original string
		if b != nil && b.law {
			k := 0
			for i, op := range u.Ops {
				if op.Op == "new" {
					continue
				}
				if i >= len(u.Results) {
					break
				}
				var idx int
				fmt.Sscanf(op.Name[1:], "%d", &idx)
				want := b.origs[idx]
				r := u.Results[i]
				got, ok := "", false
				if r.Val != nil {
					if b.asArgs {
						if len(r.Val.Args) == 1 && r.Val.Args[0].K == "scalar" && r.Val.Args[0].T == "string" {
							got, ok = r.Val.Args[0].V, true
						}
					} else if r.Val.K == "scalar" && r.Val.T == "string" {
						got, ok = r.Val.V, true
					}
				}
				if !ok || got != want {
					c.Violate("doubling-law:"+posOf(b), fmt.Sprintf("unit %s: %q (every %% doubled) evaluates to %q (ok=%v, err=%q), expected the original %q", u.ID, b.strs[idx], got, ok, r.Err, want), map[string]string{"original.txt": want})
				}
				k++
			}
			c.Add("doubling_law_checked", k)
		}
	}
	// (e) near misses of registered function names and of the token shape: all must be rejected naming the parameter,
	// while the exact forms next to them are accepted
	{
		reg := []string{"env", "envInt", "todo", "fn", "myFunc1"}
		type nm struct {
			s      string
			accept bool
		}
		var cases []nm
		for _, f := range reg {
			arg := `"X"`
			if f == "envInt" {
				arg = `"X", 1`
			}
			cases = append(cases, nm{"%" + f + "(" + arg + ")%", true})
			for _, bad := range []string{f + "x", f + "1", f + "_", f[:len(f)-1], strings.ToUpper(f[:1]) + f[1:], strings.ToLower(f), "x" + f, f + f, f + "Later"} {
				if bad == "" || bad == f {
					continue
				}
				known := false
				for _, g := range reg {
					known = known || g == bad
				}
				if known {
					continue
				}
				cases = append(cases, nm{"%" + bad + "(" + arg + ")%", false}, nm{"a%" + bad + "(" + arg + ")%b", false})
			}
			cases = append(cases, nm{"%" + f + " (" + arg + ")%", false}, nm{"% " + f + "(" + arg + ")%", false}, nm{"%" + f + "(" + arg + ") %", false}, nm{"%" + f + "(" + arg + "%", false}, nm{"%" + f + arg + ")%", false}, nm{"%" + f + "()()%", true})
		}
		conf := &cfg.Config{Meta: cfg.Meta{Pkg: cfg.P("gen"), Imports: []cfg.KS{{K: "pa", V: "fixt/pa"}}, Functions: []cfg.KS{{K: "fn", V: "pa.FnEcho"}, {K: "myFunc1", V: "pa.Fn"}}}}
		for i, cse := range cases {
			conf.Params = append(conf.Params, cfg.KV{K: fmt.Sprintf("n%04d", i), V: cfg.Str(cse.s)})
		}
		dir := w.TempDir("c03n")
		yaml := conf.YAML()
		_ = work.WriteFile(filepath.Join(dir, "in.yaml"), []byte(yaml))
		out := filepath.Join(dir, "out.go")
		run := cli.Do(w, "", nil, dir, out, "build", "-i", "in.yaml", "-o", out)
		rejected := namesInCompileErrors(&run)
		for i, cse := range cases {
			name := fmt.Sprintf("n%04d", i)
			c.Eval("near-miss|"+cse.s, true)
			if cse.s == "%todo()()%" || strings.HasSuffix(cse.s, "()()%") {
				continue // `f()()` has the call shape with arguments `)(`: acceptance depends on the Go text, not judged
			}
			if cse.accept && rejected[name] {
				c.Violate("registered-function-rejected", fmt.Sprintf("%q uses a registered function but is rejected: %s", cse.s, diagFor(&run, name)), map[string]string{"input/in.yaml": yaml})
			}
			if !cse.accept && !rejected[name] {
				c.Violate("unknown-function-accepted", fmt.Sprintf("%q is not a call of a registered function (near miss of a registered name or of the token shape) but no diagnostic names it", cse.s), map[string]string{"input/in.yaml": yaml, "stdout.txt": firstLines(run.Res.Stdout, 60)})
			}
		}
		c.Set("near_miss_function_tokens", len(cases))
	}
	// "badgo" strings (call arguments that are not Go): each alone must fail in the code generation step
	var bad []string
	for _, b := range batches {
		if !b.fnA || b.asArgs {
			continue
		}
		for _, s := range b.strs {
			if b.refVerdict(s) == "badgo" && len(bad) < c.Pick(40, 400) {
				bad = append(bad, s)
			}
		}
	}
	for _, s := range []string{`%a(1 1)%`, `%a(,)%`, `%a(")%`, `%a(1,)%`, `%a((1)%`} {
		bad = append(bad, s)
	}
	Par(len(bad), 16, func(i int) {
		b := &c03batch{strs: []string{bad[i]}, fnA: true}
		if b.refVerdict(bad[i]) != "badgo" {
			return
		}
		dir := w.TempDir("c03g")
		yaml := b.config(nil).YAML()
		_ = work.WriteFile(filepath.Join(dir, "in.yaml"), []byte(yaml))
		out := filepath.Join(dir, "out.go")
		run := cli.Do(w, "", nil, dir, out, "build", "-i", "in.yaml", "-o", out)
		c.Eval("badgo|"+bad[i], true)
		c.Add("bad_go_arguments_checked", 1)
		if run.Res.Exit == 0 {
			// accepted: then the generated file must at least be Go (the arguments were harmless after all)
			if _, err := os.Stat(out); err != nil {
				c.Violate("bad-go-arguments-accepted", fmt.Sprintf("%q: call arguments are not a Go expression list, yet the run succeeded without output", bad[i]), nil)
			}
			c.Add("bad_go_arguments_accepted_by_tool", 1)
		}
	})
	return nil
}

func posOf(b *c03batch) string {
	if b.asArgs {
		return "argument"
	}
	return "parameter"
}

func diagFor(run *cli.Run, name string) string {
	for _, d := range run.Rep.List {
		if n := cli.Names(d); len(n) > 0 && n[0] == name {
			return d
		}
	}
	return ""
}
