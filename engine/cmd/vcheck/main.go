package main

import (
	"flag"
	"fmt"
	"os"
	"os/signal"
	"sort"
	"strconv"
	"syscall"
	"time"

	"verif/mon"
	"verif/work"
)

func main() {
	if len(os.Args) < 2 {
		fmt.Fprintln(os.Stderr, "usage: vcheck run -property <id> -tier quick|thorough | vcheck list")
		os.Exit(2)
	}
	switch os.Args[1] {
	case "list":
		var ids []string
		for id := range mon.Registry {
			ids = append(ids, id)
		}
		sort.Strings(ids)
		for _, id := range ids {
			fmt.Println(id, mon.Registry[id].Level)
		}
	case "run":
		fs := flag.NewFlagSet("run", flag.ExitOnError)
		prop := fs.String("property", "", "property id")
		tier := fs.String("tier", "quick", "quick|thorough")
		home := fs.String("home", "/verif", "verif home")
		repo := fs.String("repo", envOr("VERIF_REPO", "/repo"), "repository under test")
		_ = fs.Parse(os.Args[2:])
		if t := os.Getenv("VERIF_TIER"); t != "" && *tier == "" {
			*tier = t
		}
		seed := int64(1)
		if s := os.Getenv("VERIF_SEED"); s != "" {
			if v, err := strconv.ParseInt(s, 10, 64); err == nil {
				seed = v
			}
		}
		ent, ok := mon.Registry[*prop]
		if !ok {
			fmt.Fprintf(os.Stderr, "unknown property %q\n", *prop)
			os.Exit(2)
		}
		c := mon.NewCtx(*home, *repo, *prop, *tier, seed, ent.Level)
		w, err := work.New(*home, *repo)
		if err != nil {
			fmt.Printf("INCONCLUSIVE property=%s reason=workspace: %v\n", *prop, err)
			os.Exit(2)
		}
		c.W = w
		// harness watchdog: a check that does not finish is inconclusive, never a verdict
		limit := 20 * time.Minute
		if *tier == "thorough" {
			limit = 5 * time.Hour
		}
		// own process group: when the watchdog fires, every child (tool runs, probes, go builds) goes with it
		_ = syscall.Setpgid(0, 0)
		time.AfterFunc(limit, func() {
			fmt.Printf("INCONCLUSIVE property=%s reason=harness watchdog: the check did not finish within %s\n", *prop, limit)
			signal.Ignore(syscall.SIGTERM)
			_ = syscall.Kill(0, syscall.SIGTERM) // the group, except us
			time.Sleep(2 * time.Second)
			w.Close()
			os.Stdout.Sync()
			os.Exit(2)
		})
		code := func() int {
			defer w.Close()
			if err := w.Build(); err != nil {
				// the tree under test does not build: that is not a verdict about the property
				c.Inconclusive("gontainer does not build: " + err.Error())
				return c.Finish()
			}
			if err := ent.Fn(c); err != nil {
				c.Inconclusive("harness: " + err.Error())
			}
			return c.Finish()
		}()
		os.Exit(code)
	default:
		fmt.Fprintln(os.Stderr, "unknown command", os.Args[1])
		os.Exit(2)
	}
}

func envOr(k, d string) string {
	if v := os.Getenv(k); v != "" {
		return v
	}
	return d
}
