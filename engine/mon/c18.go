package mon

import (
	"fmt"
	"math/rand"
	"path/filepath"
	"strings"

	"verif/cli"
	"verif/ref"
	"verif/work"
)

func init() { Register("C18", "exploration", checkC18) }

func versionGrid() []string {
	var out []string
	// multi-digit components included: a lexicographic comparison would order 1.10 before 1.9
	for _, maj := range []int{0, 1, 2, 3, 10} {
		for _, min := range []int{0, 1, 2, 3, 9, 10, 12, 100} {
			for _, pat := range []int{0, 7} {
				for _, suf := range []string{"", "-rc.1", "+b5"} {
					out = append(out, fmt.Sprintf("%d.%d.%d%s", maj, min, pat, suf))
				}
			}
		}
	}
	return out
}

func checkC18(c *Ctx) error {
	grid := versionGrid()
	c.Rule = fmt.Sprintf("binaries linked with -X main.version=B (a third also stamped as built from a dirty tree, a third from a clean one, with commit, date and builder; every B with build metadata is stamped dirty) for B from the grid majors {0,1,2,3,10} x minors {0,1,2,3,9,10,12,100} x patches {0,7} x {release, -rc.1, +b5} (%d versions; thorough: all, plain and v-prefixed; quick: seeded sample of 36 + fixed corner builds) plus non-semantic builds (unset, devel, dev-main, v, vX) x every declared version V of the same grid (quoted and unquoted YAML) plus absent V plus malformed V (v-prefixed, 4 components, leading zeros, letters, empty, int, float, bool, list, null). plus 2-3 input files declaring different versions (the last file that declares one decides). Oracle: the truth table of the statement (engine/ref.VersionGate); verdicts are read from the exit status and the failing step (gate rejections fail in Compile, unparsable versions fail in Read config). distinct = distinct (B, V) pair; non-trivial = B is a semantic version and V is declared", len(grid))
	c.Assumptions = []string{"`-X main.version=B` is how release builds carry their version (Makefile, main.go)", "two-component shorthand versions (\"1.2\") are not judged: semver.org and the Go library disagree"}
	w := c.W
	var builds []string
	if c.Thorough() {
		for _, g := range grid {
			builds = append(builds, g, "v"+g)
		}
	} else {
		r := rand.New(rand.NewSource(c.Seed))
		perm := r.Perm(len(grid))
		for _, i := range perm[:36] {
			if r.Intn(2) == 0 {
				builds = append(builds, "v"+grid[i])
			} else {
				builds = append(builds, grid[i])
			}
		}
		builds = append(builds, "0.0.0", "v0.3.7", "1.0.0", "v1.3.0-rc.1", "2.2.7+b5", "v3.3.7", "1.10.0", "v1.9.7", "10.2.0", "v2.100.0-rc.1", "0.10.0", "0.9.7", "v10.12.0", "0.0.0-rc.1", "v0.0.0-rc.1", "0.0.0+b5", "0.0.7-rc.1", "v1.0.0-rc.1", "1.0.0+b5")
	}
	builds = append(builds, "", "devel", "dev-main", "v", "vX", "main", "1.x.0")
	bins := make([]string, len(builds))
	var berr error
	Par(len(builds), 8, func(i int) {
		bins[i] = filepath.Join(w.Dir, "bin", fmt.Sprintf("gontainer-v%03d", i))
		ld := ""
		if builds[i] != "" {
			ld = "-X main.version=" + builds[i]
		}
		// the other stamps of a real build (Makefile / goreleaser): a dirty or clean tree, commit, date, builder. They are not
		// part of the version: the verdict is the one of B alone
		switch {
		case i%3 == 1 || strings.Contains(builds[i], "+"):
			ld += " -X main.isGitDirty=true -X main.commit=0123456789abcdef0123456789abcdef01234567 -X main.date=2026-01-02T03:04:05Z -X main.builtBy=make4.3"
		case i%3 == 2:
			ld += " -X main.isGitDirty=false -X main.commit=0123456789abcdef0123456789abcdef01234567 -X main.date=2026-01-02T03:04:05 -X main.builtBy=goreleaser"
		}
		ld = strings.TrimSpace(ld)
		if err := w.BuildTool(bins[i], ld, "", false); err != nil {
			berr = err
		}
	})
	if berr != nil {
		return berr
	}
	c.Set("binaries_linked", len(builds))
	type decl struct {
		yaml string  // the `version:` line ("" = absent)
		v    *string // the string value when it is a string
		kind string  // str | absent | nonstring
	}
	var decls []decl
	for i, g := range grid {
		gg := g
		if i%2 == 0 || strings.ContainsAny(g, "+") {
			decls = append(decls, decl{fmt.Sprintf("version: %q\n", g), &gg, "str"})
		} else {
			decls = append(decls, decl{"version: " + g + "\n", &gg, "str"}) // unquoted plain scalar
		}
	}
	// long versions (a digest as build metadata, many prerelease identifiers): well-formed, so they go through the gate
	for _, long := range []string{"0.3.0+sha." + strings.Repeat("0123456789abcdef", 3), "1.2.0-rc.1.alpha.beta.gamma.delta.epsilon.zeta.eta.theta.iota.kappa+build.2026.10.02", "2.1.7+" + strings.Repeat("x", 200), "0.0.1-" + strings.Repeat("a1.", 40) + "z"} {
		l := long
		decls = append(decls, decl{fmt.Sprintf("version: %q\n", long), &l, "str"})
	}
	decls = append(decls, decl{"", nil, "absent"})
	for _, bad := range []string{"v1.2.3", "1.2.3.4", "01.2.3", "1.02.3", "abc", "", "1.2.3-", "1.2.3+", "1..3", " 1.2.3", "1.2.3 ", "1.2.3-rc..1", "1.2.3-01"} {
		b := bad
		decls = append(decls, decl{fmt.Sprintf("version: %q\n", bad), &b, "str"})
	}
	for _, raw := range []string{"5", "1.5", "true", "[1, 2, 3]", "{a: 1}"} {
		decls = append(decls, decl{"version: " + raw + "\n", nil, "nonstring"})
	}
	body := "meta:\n  pkg: \"gen\"\nservices:\n  s:\n    value: \"X\"\n"
	type job struct{ b, d int }
	var jobs []job
	for b := range builds {
		for d := range decls {
			jobs = append(jobs, job{b, d})
		}
	}
	Par(len(jobs), 16, func(ji int) {
		j := jobs[ji]
		B, d := builds[j.b], decls[j.d]
		dir := w.TempDir("c18")
		yaml := d.yaml + body
		_ = work.WriteFile(filepath.Join(dir, "in.yaml"), []byte(yaml))
		out := filepath.Join(dir, "out.go")
		// the gate belongs to the build command, whatever else it is asked to do: every third pair runs with other flags
		args := []string{"build", "-i", "in.yaml", "-o", out}
		switch ji % 9 {
		case 2:
			args = append(args, "--stub")
		case 5:
			args = append(args, "--ignore-missing-params", "--ignore-missing-services")
		case 8:
			args = append(args, "--stub", "--ignore-missing-services")
		}
		if len(args) > 5 {
			c.Add("pairs_run_with_other_flags", 1)
		}
		run := cli.Do(w, bins[j.b], nil, dir, out, args...)
		files := map[string]string{"input/in.yaml": yaml, "build-version.txt": B, "stdout.txt": run.Res.Stdout, "args.txt": strings.Join(args, " ")}
		want := "accept"
		switch d.kind {
		case "nonstring":
			want = "parse-error"
		case "str":
			want = ref.VersionGate(B, d.v)
		}
		bsem := ref.ParseSemVer(strings.TrimPrefix(B, "v")).OK
		c.Eval(B+"|"+d.yaml, bsem && d.kind == "str")
		c.Add("pairs_judged", 1)
		for _, b := range run.Contract() {
			c.Side("C10,C12", "cli-contract:"+sigWords(b), b, files)
		}
		got := "accept"
		if run.Res.Exit != 0 {
			got = "reject"
			if t := run.Rep.FailingTop(); t != nil && t.Name == "Read config" {
				got = "parse-error"
			}
		}
		if got != want {
			bclass := "semver-build"
			if !bsem {
				bclass = "non-semver-build"
			}
			c.Violate(fmt.Sprintf("verdict:%s:expected-%s-got-%s", bclass, want, got), fmt.Sprintf("build version %q, declared %q: expected %s, observed %s\n%s", B, strings.TrimSpace(d.yaml), want, got, strings.Join(run.Rep.List, "\n")), files)
		}
		c.Add("verdict_"+got, 1)
		if ji == 11 || ji == 200 {
			c.Sample(map[string]any{"build_version": B, "declared": strings.TrimSpace(d.yaml), "expected": want, "observed": got, "diagnostics": run.Rep.List})
		}
	})
	// several input files: the version is a scalar attribute, so the last file that declares one decides (C09's rule), whatever
	// the earlier files declared; files that declare none do not take part
	type mjob struct {
		b     int
		decl  []int // index into grid, -1 = the file declares no version
		where int   // which file holds the rest of the configuration
	}
	var mjobs []mjob
	rm := rand.New(rand.NewSource(c.Seed*31 + 7))
	for b := range builds {
		if !ref.ParseSemVer(strings.TrimPrefix(builds[b], "v")).OK && b%3 != 0 {
			continue
		}
		for k := 0; k < c.Pick(10, 40); k++ {
			n := 2 + rm.Intn(2)
			mj := mjob{b: b, where: rm.Intn(n)}
			for f := 0; f < n; f++ {
				switch rm.Intn(5) {
				case 0:
					mj.decl = append(mj.decl, -1)
				case 1:
					// near the build's own version: compatible and incompatible neighbours
					mj.decl = append(mj.decl, rm.Intn(len(grid)))
				default:
					mj.decl = append(mj.decl, rm.Intn(len(grid)))
				}
			}
			mjobs = append(mjobs, mj)
		}
	}
	Par(len(mjobs), 16, func(ji int) {
		mj := mjobs[ji]
		B := builds[mj.b]
		dir := w.TempDir("c18m")
		files := map[string]string{"build-version.txt": B}
		var last *string
		var pipe *work.Fifo
		args := []string{"build"}
		for f, gi := range mj.decl {
			y := ""
			if gi >= 0 {
				g := grid[gi]
				y = fmt.Sprintf("version: %q\n", g)
				last = &g
			}
			if f == mj.where {
				y += body
			}
			name := fmt.Sprintf("f%d.yaml", f)
			files["input/"+name] = y
			args = append(args, "-i", name)
			if ji%3 == 1 && f == len(mj.decl)-1 && f > 0 {
				// the last file (often the one whose declaration decides) arrives through a named pipe
				if p, err := work.FeedFifo(filepath.Join(dir, name), []byte(y)); err == nil {
					pipe = p
					continue
				}
			}
			_ = work.WriteFile(filepath.Join(dir, name), []byte(y))
		}
		out := filepath.Join(dir, "out.go")
		args = append(args, "-o", out)
		run := cli.Do(w, bins[mj.b], nil, dir, out, args...)
		if pipe != nil {
			if op, all := pipe.Stop(); op && all {
				c.Add("multi_file_cases_with_the_last_file_read_from_a_pipe", 1)
			}
		}
		want := ref.VersionGate(B, last)
		got := "accept"
		if run.Res.Exit != 0 {
			got = "reject"
			if t := run.Rep.FailingTop(); t != nil && t.Name == "Read config" {
				got = "parse-error"
			}
		}
		c.Eval(fmt.Sprintf("multi|%s|%v|%d", B, mj.decl, mj.where), last != nil)
		c.Add("multi_file_version_cases", 1)
		if got != want {
			files["stdout.txt"] = run.Res.Stdout
			c.Violate(fmt.Sprintf("multi-file-verdict:expected-%s-got-%s", want, got), fmt.Sprintf("build version %q, %d files declaring %v (grid indices, -1 = none; the last declared one decides): expected %s, observed %s\n%s", B, len(mj.decl), mj.decl, want, got, strings.Join(run.Rep.List, "\n")), files)
		}
	})
	c.Set("declared_versions", len(decls))
	c.Exhaustive = c.Thorough()
	return nil
}
