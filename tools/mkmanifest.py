#!/usr/bin/env python3
"""Regenerates /verif/MANIFEST.json from the table below (kept next to the checks so the two do not drift)."""
import json, subprocess, sys

CHECKS = {
 # id: (category, level text, technique, level note)
 "C01": ("exploration", "Seeded generator over the quantifier's dimension table (creation method, value/type forms, getter types, scopes, literals incl. non-finite floats, alias tables from the collision space, 1-4 input files) x {normal, --stub}; the Go compiler, gofmt and a linked probe's start-up are the oracle. Held = every accepted configuration generated in this run compiled and initialised.", "generated-program monitoring: real binary -> go build/gofmt -> probe start marker", "trusts the Go toolchain as judge; symbols limited to the fixture universe"),
 "C02": ("exploration", "Each generated configuration is compiled, linked with instrumented fixture packages and executed; the object graph behind every service (constructor, argument order/types/identity, fields before calls, wither replacement, error cases) is compared with a reference container up to instance renaming.", "reference-model monitor over fixture event logs of the executed generated container", "trusts the reference interpreter engine/ref (written from docs) and the fixture recorder"),
 "C19": ("other", "Replays build -> regenerate -> rebuild -> regenerate for 3 generations with the real binary and compares bytes modulo the version line; a fixpoint over one fixed input needs nothing beyond executing it.", "fixpoint replay on the real binary, byte comparison", "trusts the Go toolchain and the Makefile's self-compile arguments"),
}
NOT_YET = "check under construction in this session (monitor not built yet); not a claim that the technique cannot apply"

props=[json.loads(l)['id'] for l in open('/verif/properties.jsonl')]
old=json.load(open('/verif/MANIFEST.json'))
m={"version":1,"setup_cmd":"./setup.sh",
 "hooks":{"guard":"verif","enable":"every build of the scratch copy of /repo passes -tags verif; no source hooks exist (observation happens at the CLI boundary and inside instrumented fixture packages that the generated code imports)","baseline_off_cmd":"cd /repo && go test -vet=off -count=1 ./...","source_commits":[],"add_only":True},
 "engines":[{"name":"vcheck","path":"engine/","serves_properties":sorted(CHECKS),"kind_free_text":"Go runtime-monitoring engine: drivers for the real gontainer binary, generated-program probes over an instrumented fixture universe (fixtures/), reference-model oracles (engine/ref)"}],
 "checks":[],"not_applicable":[],
 "notes":"exit codes: 0 held (possibly with KNOWN-FINDING lines), 1 VIOLATION, 2 INCONCLUSIVE. VERIF_SEED selects the case list; VERIF_REPO overrides /repo (used to validate monitors against mutated copies)."}
for p in props:
    if p in CHECKS:
        cat,text,tech,note=CHECKS[p]
        m["checks"].append({"property_id":p,"quick_cmd":f"./check.sh {p} quick","thorough_cmd":f"./check.sh {p} thorough","evidence_file":f"/verif/evidence/{p}.json","replay_cmd_template":"cat {path}/WHAT.txt","engine":"vcheck","level_claimed":{"category":cat,"text":text,"design_ref":"DESIGN.md section 3, "+p},"level_note":note,"technique":tech})
    else:
        m["not_applicable"].append({"property_id":p,"reason":NOT_YET})
json.dump(m,open('/verif/MANIFEST.json','w'),indent=1)
print("checks:",len(m["checks"]),"not_applicable:",len(m["not_applicable"]))
