module verif

go 1.21

require gopkg.in/yaml.v3 v3.0.1
