//go:build !gontainerstub

// Package probe is the fixed run-time half of the history probe: it executes scripted
// operation histories against generated containers and logs every command before it
// runs and every observation after, one JSON line each.
package probe

import (
	"strings"
	"bufio"
	"context"
	"encoding/json"
	"fmt"
	"os"
	"reflect"
	"runtime/debug"
	"strconv"
	"sync"

	"fixt/apidump"
	"fixt/rec"
	"github.com/gontainer/gontainer-helpers/v3/container"
)

type Ctr interface {
	Get(string) (interface{}, error)
	GetInContext(context.Context, string) (interface{}, error)
	GetParam(string) (interface{}, error)
	GetTaggedBy(string) ([]interface{}, error)
	GetTaggedByInContext(context.Context, string) ([]interface{}, error)
	CircularDeps() error
	OverrideParam(string, container.Dependency)
	OverrideService(string, container.Service)
	IsTaggedBy(string, string) bool
	Root() *container.Container
}

var registry = map[string]func() interface{}{}

func Register(name string, ctor func() interface{}) { registry[name] = ctor }

// symbol tables for OverrideService / OverrideParam definitions (filled by the generated main)
var Ctors = map[string]interface{}{}

type DepSpec struct {
	Dep  string `json:"dep"` // value | service | param | tag
	T    string `json:"t,omitempty"`
	V    string `json:"v,omitempty"`
	Name string `json:"name,omitempty"`
}

type TagSpec struct {
	Name string `json:"name"`
	Prio int    `json:"prio"`
}

type Op struct {
	Op    string    `json:"op"`
	Name  string    `json:"name,omitempty"`
	Ctx   int       `json:"ctx,omitempty"`
	Val   string    `json:"val,omitempty"`
	Ctor  string    `json:"ctor,omitempty"`
	Deps  []DepSpec `json:"deps,omitempty"`
	Scope string    `json:"scope,omitempty"`
	Tags  []TagSpec `json:"tags,omitempty"`
	// stress
	G    int   `json:"g,omitempty"`
	Reps int   `json:"reps,omitempty"`
	Seed int64 `json:"seed,omitempty"`
	Ops  []Op  `json:"ops,omitempty"`
}

type Script struct {
	Containers []struct {
		Name string `json:"name"`
		Ops  []Op   `json:"ops"`
	} `json:"containers"`
}

type Res struct {
	C          string           `json:"c"`
	I          int              `json:"i"`
	Phase      string           `json:"phase"`
	Op         *Op              `json:"op,omitempty"`
	OK         bool             `json:"ok,omitempty"`
	Err        string           `json:"err,omitempty"`
	Panic      string           `json:"panic,omitempty"`
	Missing    bool             `json:"missing,omitempty"`
	Val        *rec.D           `json:"val,omitempty"`
	Static     string           `json:"static,omitempty"`
	SPkg       string           `json:"spkg,omitempty"` // package path of the getter's result type
	Events     []rec.DE         `json:"events,omitempty"`
	Counts     map[string]int64 `json:"counts,omitempty"`
	API        *API             `json:"api,omitempty"`
	Bool       *bool            `json:"bool,omitempty"`
	Stress     *StressRes       `json:"stress,omitempty"`
	raw        interface{}      // the value an operation returned (stress mode reads identities from it)
	noDescribe bool
}

type API struct {
	Type    string   `json:"type"`
	PkgPath string   `json:"pkgpath"`
	Methods []string `json:"methods"` // exported methods of *T: "Name func(sig)"
	Runtime []string `json:"runtime"` // exported methods of *container.Container
	Fields  []string `json:"fields"`  // fields of T
	PkgName string   `json:"pkgname"`
}

func dep(d DepSpec) container.Dependency {
	switch d.Dep {
	case "service":
		return container.NewDependencyService(d.Name)
	case "param":
		return container.NewDependencyParam(d.Name)
	case "tag":
		return container.NewDependencyTag(d.Name)
	}
	return container.NewDependencyValue(scalar(d.T, d.V))
}

func scalar(t, v string) interface{} {
	switch t {
	case "int":
		i, _ := strconv.Atoi(v)
		return i
	case "float64":
		f, _ := strconv.ParseFloat(v, 64)
		return f
	case "bool":
		return v == "true"
	case "nil":
		return nil
	}
	return v
}

type runner struct {
	out  *bufio.Writer
	mu   sync.Mutex
	name string
	c    Ctr
	raw  interface{}
	ctxs map[int]context.Context
	cncl []context.CancelFunc
}

func (r *runner) emit(x Res) {
	b, _ := json.Marshal(x)
	r.mu.Lock()
	r.out.Write(b)
	r.out.WriteByte('\n')
	r.out.Flush()
	r.mu.Unlock()
}

func (r *runner) ctx(k int) context.Context {
	if c, ok := r.ctxs[k]; ok {
		return c
	}
	base, cancel := context.WithCancel(context.Background())
	r.cncl = append(r.cncl, cancel)
	c := container.ContextWithContainer(base, r.c)
	r.ctxs[k] = c
	return c
}

func errStr(e error) string {
	if e == nil {
		return ""
	}
	return e.Error()
}

// exec runs one operation under recover and fills res.
func (r *runner) exec(op Op, res *Res) {
	defer func() {
		if p := recover(); p != nil {
			res.Panic = fmt.Sprint(p)
			if os.Getenv("PROBE_STACK") != "" {
				res.Panic += "\n" + string(debug.Stack())
			}
		}
	}()
	val := func(v interface{}, err error) {
		if err != nil {
			res.Err = err.Error()
			if v != nil && !isNilish(v) {
				d := rec.Describe(v)
				res.Val = &d // an error together with a value is itself an observation
			}
			return
		}
		res.OK = true
		res.raw = v
		if res.noDescribe {
			return
		}
		d := rec.Describe(v)
		res.Val = &d
	}
	if op.Op != "new" && op.Op != "setenv" && op.Op != "unsetenv" && op.Op != "counts" && r.c == nil {
		res.Err = "no container (constructor failed)"
		return
	}
	switch op.Op {
	case "new":
		rec.Reset()
		for _, cancel := range r.cncl {
			cancel()
		}
		r.cncl = nil
		r.ctxs = map[int]context.Context{} // contexts belong to one container
		ctor, ok := registry[r.name]
		if !ok {
			res.Err = "not registered"
			return
		}
		r.raw = ctor()
		c, ok := r.raw.(Ctr)
		if !ok {
			res.Err = fmt.Sprintf("%T does not implement the container interface", r.raw)
			return
		}
		r.c = c
		rec.SetCurrent(c.Root())
		res.OK = true
	case "get":
		val(r.c.Get(op.Name))
	case "getctx":
		val(r.c.GetInContext(r.ctx(op.Ctx), op.Name))
	case "getctxfree":
		// a cancellable context that was never attached to the container
		free, cancel := context.WithCancel(context.Background())
		defer cancel()
		val(r.c.GetInContext(free, op.Name))
	case "param":
		val(r.c.GetParam(op.Name))
	case "tagged":
		v, err := r.c.GetTaggedBy(op.Name)
		val(v, err)
	case "taggedctx":
		v, err := r.c.GetTaggedByInContext(r.ctx(op.Ctx), op.Name)
		val(v, err)
	case "istagged":
		b := r.c.IsTaggedBy(op.Name, op.Val)
		res.Bool = &b
		res.OK = true
	case "circular":
		if err := r.c.CircularDeps(); err != nil {
			res.Err = err.Error()
		} else {
			res.OK = true
		}
	case "getter", "getterctx", "getterctxfree":
		m := reflect.ValueOf(r.raw).MethodByName(op.Name)
		if !m.IsValid() {
			res.Missing = true
			return
		}
		var in []reflect.Value
		if op.Op == "getterctx" {
			in = []reflect.Value{reflect.ValueOf(r.ctx(op.Ctx))}
		}
		if op.Op == "getterctxfree" {
			free, cancel := context.WithCancel(context.Background())
			defer cancel()
			in = []reflect.Value{reflect.ValueOf(free)}
		}
		if m.Type().NumIn() != len(in) {
			res.Err = "unexpected signature " + m.Type().String()
			res.Static = apidump.Sig(m.Type(), 0)
			return
		}
		res.Static = apidump.Sig(m.Type(), 0)
		if m.Type().NumOut() > 0 {
			t := m.Type().Out(0)
			if t.Kind() == reflect.Ptr {
				t = t.Elem()
			}
			res.SPkg = t.PkgPath()
		}
		outs := m.Call(in)
		switch len(outs) {
		case 1:
			val(outs[0].Interface(), nil)
		case 2:
			var err error
			if e, ok := outs[1].Interface().(error); ok {
				err = e
			}
			val(outs[0].Interface(), err)
		default:
			res.Err = "unexpected result count"
		}
	case "overrideparam":
		if len(op.Deps) != 1 {
			res.Err = "bad spec"
			return
		}
		r.c.OverrideParam(op.Name, dep(op.Deps[0]))
		res.OK = true
	case "overridesvc":
		s := container.NewService()
		fn, ok := Ctors[op.Ctor]
		if !ok {
			res.Err = "unknown ctor " + op.Ctor
			return
		}
		ds := make([]container.Dependency, len(op.Deps))
		for i, d := range op.Deps {
			ds[i] = dep(d)
		}
		s.SetConstructor(fn, ds...)
		switch op.Scope {
		case "shared":
			s.SetScopeShared()
		case "contextual":
			s.SetScopeContextual()
		case "non_shared":
			s.SetScopeNonShared()
		}
		for _, t := range op.Tags {
			s.Tag(t.Name, t.Prio)
		}
		r.c.OverrideService(op.Name, s)
		res.OK = true
	case "adddecorator":
		// the application registers one more decorator on the container it was given (Name = tag, Ctor = decorator function)
		fn, ok := Ctors[op.Ctor]
		if !ok {
			res.Err = "unknown decorator " + op.Ctor
			return
		}
		ds := make([]container.Dependency, len(op.Deps))
		for i, d := range op.Deps {
			ds[i] = dep(d)
		}
		r.c.Root().AddDecorator(op.Name, fn, ds...)
		res.OK = true
	case "independent":
		// two more containers from the same constructor function: whatever one of them hands out must not be handed out by
		// the other (op.Ops lists what to fetch); identities as in the stress run (serial, or retained address of pointer literals)
		ctor, ok := registry[r.name]
		if !ok {
			res.Err = "not registered"
			return
		}
		a, okA := ctor().(Ctr)
		b, okB := ctor().(Ctr)
		if !okA || !okB {
			res.Err = "constructor result does not implement the container interface"
			return
		}
		fetch := func(c Ctr, o Op) interface{} {
			var v interface{}
			func() {
				defer func() { _ = recover() }()
				switch o.Op {
				case "get":
					v, _ = c.Get(o.Name)
				case "tagged":
					v, _ = c.GetTaggedBy(o.Name)
				}
			}()
			return v
		}
		owner := map[int64]string{}
		var shared []string
		n := 0
		for _, o := range op.Ops {
			for _, id := range topIDs(fetch(a, o)) {
				if id != 0 {
					owner[id] = o.Op + " " + o.Name
					n++
				}
			}
		}
		for _, o := range op.Ops {
			for _, id := range topIDs(fetch(b, o)) {
				if w, dup := owner[id]; dup && id != 0 {
					shared = append(shared, fmt.Sprintf("%s of the second container is the object the first container returned for %s", o.Op+" "+o.Name, w))
				}
			}
		}
		res.Counts = map[string]int64{"identities_of_first_container": int64(n)}
		if len(shared) > 0 {
			if len(shared) > 5 {
				shared = shared[:5]
			}
			res.Err = strings.Join(shared, "; ")
			return
		}
		res.OK = true
	case "setenv":
		os.Setenv(op.Name, op.Val)
		res.OK = true
	case "unsetenv":
		os.Unsetenv(op.Name)
		res.OK = true
	case "counts":
		res.OK = true
	case "api":
		res.API = apiOf(r.raw)
		res.OK = true
	case "stress":
		res.Stress = r.stress(op)
		res.OK = true
	default:
		res.Err = "unknown op " + op.Op
	}
}

func isNilish(v interface{}) bool {
	rv := reflect.ValueOf(v)
	switch rv.Kind() {
	case reflect.Ptr, reflect.Interface, reflect.Slice, reflect.Map, reflect.Func, reflect.Chan:
		return rv.IsNil()
	}
	return false
}

func apiOf(raw interface{}) *API {
	d := apidump.Of(reflect.TypeOf(raw))
	return &API{Type: d.Type, PkgPath: d.PkgPath, PkgName: d.PkgName, Methods: d.Methods, Fields: d.Fields,
		Runtime: apidump.Methods(reflect.TypeOf((*container.Container)(nil)))}
}

func Main() {
	if len(os.Args) < 3 {
		fmt.Fprintln(os.Stderr, "usage: probe <script.json> <out.jsonl>")
		os.Exit(2)
	}
	rec.RootOf = func(v interface{}) (interface{}, bool) {
		if r, ok := v.(interface{ Root() *container.Container }); ok {
			rv := reflect.ValueOf(v)
			if rv.Kind() == reflect.Ptr && rv.IsNil() {
				return nil, false
			}
			return r.Root(), true
		}
		return nil, false
	}
	b, err := os.ReadFile(os.Args[1])
	if err != nil {
		fmt.Fprintln(os.Stderr, err)
		os.Exit(2)
	}
	var sc Script
	if err := json.Unmarshal(b, &sc); err != nil {
		fmt.Fprintln(os.Stderr, err)
		os.Exit(2)
	}
	f, err := os.Create(os.Args[2])
	if err != nil {
		fmt.Fprintln(os.Stderr, err)
		os.Exit(2)
	}
	defer f.Close()
	out := bufio.NewWriter(f)
	(&runner{out: out}).emit(Res{Phase: "started"})
	for _, cs := range sc.Containers {
		r := &runner{out: out, name: cs.Name, ctxs: map[int]context.Context{}}
		for i := range cs.Ops {
			op := cs.Ops[i]
			r.emit(Res{C: cs.Name, I: i, Phase: "begin", Op: &op})
			res := Res{C: cs.Name, I: i, Phase: "end"}
			r.exec(op, &res)
			res.Events = rec.DescribeEvents(rec.Drain())
			if op.Op == "counts" || op.Op == "new" || op.Op == "stress" {
				res.Counts = rec.Counts()
			}
			r.emit(res)
		}
		for _, c := range r.cncl {
			c()
		}
	}
	(&runner{out: out}).emit(Res{Phase: "done"})
}
