package gen

import (
	"math/rand"
	"sort"

	"verif/cfg"
)

var fileNameSets = [][]string{
	{"gontainer.yaml"},
	{"b.yaml", "a.yaml"},
	{"z.yaml", "sub/c.yaml", "A.yaml", "m-n.yaml"},
}

// SplitParts distributes a configuration over k fragments such that merging them in order
// (documented rules: scalars override, mappings unite key-wise, non-empty arguments replace,
// calls/tags/decorators append) gives the configuration back.
func SplitParts(r *rand.Rand, c *cfg.Config, k int) []cfg.Config {
	parts := make([]cfg.Config, k)
	if k == 1 {
		parts[0] = c.Clone()
		return parts
	}
	pick := func() int { return r.Intn(k) }
	if c.Version != nil {
		v := *c.Version
		parts[pick()].Version = &v
	}
	m := c.Meta
	if m.Pkg != nil {
		parts[pick()].Meta.Pkg = cfg.P(*m.Pkg)
	}
	if m.ContainerType != nil {
		parts[pick()].Meta.ContainerType = cfg.P(*m.ContainerType)
	}
	if m.ContainerConstructor != nil {
		parts[pick()].Meta.ContainerConstructor = cfg.P(*m.ContainerConstructor)
	}
	if m.DefaultMustGetter != nil {
		parts[pick()].Meta.DefaultMustGetter = cfg.P(*m.DefaultMustGetter)
	}
	for _, kv := range m.Imports {
		p := pick()
		parts[p].Meta.Imports = append(parts[p].Meta.Imports, kv)
	}
	for _, kv := range m.Functions {
		p := pick()
		parts[p].Meta.Functions = append(parts[p].Meta.Functions, kv)
	}
	for _, kv := range c.Params {
		p := pick()
		parts[p].Params = append(parts[p].Params, kv)
	}
	// runs: n items cut into contiguous runs assigned to non-decreasing parts
	runs := func(n int) []int {
		idx := make([]int, n)
		for i := range idx {
			idx[i] = pick()
		}
		sort.Ints(idx)
		return idx
	}
	for _, s := range c.Services {
		frag := make([]*cfg.Service, k)
		get := func(p int) *cfg.Service {
			if frag[p] == nil {
				frag[p] = &cfg.Service{Name: s.Name}
			}
			return frag[p]
		}
		if s.Todo != nil {
			get(pick()).Todo = cfg.P(*s.Todo)
		}
		if s.Getter != nil {
			get(pick()).Getter = cfg.P(*s.Getter)
		}
		if s.MustGetter != nil {
			get(pick()).MustGetter = cfg.P(*s.MustGetter)
		}
		if s.Type != nil {
			get(pick()).Type = cfg.P(*s.Type)
		}
		if s.Value != nil {
			get(pick()).Value = cfg.P(*s.Value)
		}
		if s.Constructor != nil {
			get(pick()).Constructor = cfg.P(*s.Constructor)
		}
		if s.Scope != nil {
			get(pick()).Scope = cfg.P(*s.Scope)
		}
		if s.Args != nil {
			get(pick()).Args = append([]cfg.Val{}, s.Args...)
		}
		for _, f := range s.Fields {
			fr := get(pick())
			fr.Fields = append(fr.Fields, f)
		}
		for i, p := range runs(len(s.Calls)) {
			fr := get(p)
			fr.Calls = append(fr.Calls, s.Calls[i])
		}
		for i, p := range runs(len(s.Tags)) {
			fr := get(p)
			fr.Tags = append(fr.Tags, s.Tags[i])
		}
		any := false
		for p := range frag {
			if frag[p] != nil {
				parts[p].Services = append(parts[p].Services, *frag[p])
				any = true
			}
		}
		if !any {
			parts[pick()].Services = append(parts[pick()].Services, cfg.Service{Name: s.Name})
		}
	}
	for i, p := range runs(len(c.Decorators)) {
		parts[p].Decorators = append(parts[p].Decorators, c.Decorators[i])
	}
	return parts
}

// Split renders the configuration as 1 (mode 0), 2 (mode 1) or 4 (mode 2) files; each file is its own -i pattern, in order.
func Split(r *rand.Rand, c *cfg.Config, mode int) []cfg.File {
	names := fileNameSets[mode%len(fileNameSets)]
	parts := SplitParts(r, c, len(names))
	files := make([]cfg.File, len(names))
	for i := range names {
		files[i] = cfg.File{Name: names[i], Content: parts[i].YAML()}
	}
	return files
}
