//go:build !gontainerstub

package probe

func stressRun(r *runner, op Op) *StressRes { return &StressRes{} }
