package ref

import (
	"encoding/json"
	"fmt"
	"strconv"

	"verif/probe"
)

// Describe mirrors fixt/rec.Describe on model values.
func (it *Interp) Describe(v any) probe.D {
	d := &describer{it: it, seen: map[int64]bool{}}
	return d.desc(v)
}

type describer struct {
	it   *Interp
	seen map[int64]bool
}

func (d *describer) list(vs []any) []probe.D {
	if len(vs) == 0 {
		return nil
	}
	out := make([]probe.D, len(vs))
	for i, v := range vs {
		out[i] = d.desc(v)
	}
	return out
}

func (d *describer) obj(o *ObjM, isPtr bool) probe.D {
	id := o.Serial
	if id == 0 && isPtr {
		if o.pid == 0 {
			o.pid = d.it.serial()
		}
		id = o.pid
	}
	t := d.it.typeName(o.TPkg, "Obj")
	if isPtr {
		t = "*" + t
	}
	out := probe.D{K: "obj", T: t, ID: id, Ptr: isPtr, Pkg: o.Pkg, Ctor: o.Ctor, From: o.From}
	if id != 0 {
		if d.seen[id] {
			out.Seen = true
			return out
		}
		d.seen[id] = true
	}
	out.Args = d.list(o.Args)
	out.F = []probe.D{d.desc(o.F[0]), d.desc(o.F[1]), d.desc(o.F[2])}
	if o.H != nil {
		for _, e := range o.H.E {
			out.Hist = append(out.Hist, probe.E{Kind: e.Kind, Method: e.Method, Pkg: e.Pkg, Tag: e.Tag, Svc: e.Svc, Args: d.list(e.Args), Snap: e.Snap})
		}
	}
	return out
}

func (d *describer) desc(v any) probe.D {
	switch x := v.(type) {
	case nil:
		return probe.D{K: "nil"}
	case bool:
		return probe.D{K: "scalar", T: "bool", V: strconv.FormatBool(x)}
	case int:
		return probe.D{K: "scalar", T: "int", V: strconv.Itoa(x)}
	case int64:
		return probe.D{K: "scalar", T: "int64", V: strconv.FormatInt(x, 10)}
	case uint64:
		return probe.D{K: "scalar", T: "uint64", V: strconv.FormatUint(x, 10)}
	case float64:
		return probe.D{K: "scalar", T: "float64", V: FmtFloat(x)}
	case string:
		return probe.D{K: "scalar", T: "string", V: x}
	case SliceM:
		return probe.D{K: "slice", Elems: d.list(x)}
	case *WrapM:
		out := probe.D{K: "wrapped", ID: x.Serial, Pkg: x.Pkg, Fn: x.Fn, Tag: x.Tag, Svc: x.Svc}
		if d.seen[x.Serial] {
			out.Seen = true
			return out
		}
		d.seen[x.Serial] = true
		in := d.desc(x.Inner)
		out.Inner = &in
		out.Args = d.list(x.Args)
		return out
	case *ObjM:
		return d.obj(x, true)
	case ObjM:
		return d.obj(&x, false)
	case NilObjM:
		return probe.D{K: "nilobj", T: "*" + d.it.typeName(x.TPkg, "Obj")}
	case ContainerM:
		t := "Gontainer"
		if d.it.C.Meta.ContainerType != nil {
			t = *d.it.C.Meta.ContainerType
		}
		return probe.D{K: "container", T: "*" + d.it.PkgName + "." + t, Same: true}
	case OtherM:
		return probe.D{K: "other", T: x.T, V: x.V}
	}
	return probe.D{K: "unmodelled", T: fmt.Sprintf("%T", v)}
}

func (it *Interp) DescribeEvents(es []EventM) []probe.DE {
	var out []probe.DE
	for _, e := range es {
		d := &describer{it: it, seen: map[int64]bool{}}
		out = append(out, probe.DE{Kind: e.Kind, Pkg: e.Pkg, Sym: e.Sym, Args: d.list(e.Args)})
	}
	return out
}

// Canon renumbers instance ids by first occurrence across a whole history, so that two
// executions can be compared up to instance renaming.
type Canon struct {
	m    map[int64]int64
	next int64
}

func NewCanon() *Canon { return &Canon{m: map[int64]int64{}} }

func (c *Canon) id(raw int64) int64 {
	if raw == 0 {
		return 0
	}
	if v, ok := c.m[raw]; ok {
		return v
	}
	c.next++
	c.m[raw] = c.next
	return c.next
}

func (c *Canon) D(d *probe.D) {
	if d == nil {
		return
	}
	d.ID = c.id(d.ID)
	d.From = c.id(d.From)
	for i := range d.Args {
		c.D(&d.Args[i])
	}
	for i := range d.F {
		c.D(&d.F[i])
	}
	for i := range d.Hist {
		for j := range d.Hist[i].Args {
			c.D(&d.Hist[i].Args[j])
		}
	}
	c.D(d.Inner)
	for i := range d.Elems {
		c.D(&d.Elems[i])
	}
}

func (c *Canon) Events(es []probe.DE) {
	for i := range es {
		es[i].Serial = 0 // orphan serials carry no identity
		for j := range es[i].Args {
			c.D(&es[i].Args[j])
		}
	}
}

func JSON(v any) string {
	b, _ := json.Marshal(v)
	return string(b)
}

// EventKey is an order-insensitive representation of one event (events of one operation are compared as multisets).
func EventKey(e probe.DE) string { return JSON(e) }
