package ref

import (
	"strings"

	"verif/cfg"
)

// Hand-written recognisers of the input grammar (no regexp), one per position.

func isImportChar(c byte) bool { return isAlnum(c) || c == '.' || c == '_' || c == '-' }

// IsBaseImport: a letter, then characters from [A-Za-z0-9._-], each optionally preceded by one '/'.
func IsBaseImport(s string) bool {
	if len(s) == 0 || !isAlpha(s[0]) {
		return false
	}
	i := 1
	for i < len(s) {
		if s[i] == '/' {
			i++
			if i >= len(s) {
				return false
			}
		}
		if !isImportChar(s[i]) {
			return false
		}
		i++
	}
	return true
}

// IsImport: unquoted path, quoted path, or "." (quoted dot) for the current package.
func IsImport(s string) bool {
	if s == `"."` {
		return true
	}
	if len(s) >= 2 && s[0] == '"' && s[len(s)-1] == '"' {
		return IsBaseImport(s[1 : len(s)-1])
	}
	return IsBaseImport(s)
}

// withOptionalImport reports whether s is `[import.]rest` with rest accepted by ok.
func withOptionalImport(s string, ok func(string) bool) bool {
	if ok(s) {
		return true
	}
	for i := 0; i < len(s); i++ {
		if s[i] == '.' && IsImport(s[:i]) && ok(s[i+1:]) {
			return true
		}
	}
	return false
}

func IsGoFunc(s string) bool { return withOptionalImport(s, IsGoToken) }

func IsServiceType(s string) bool {
	s = strings.TrimPrefix(s, "*")
	return withOptionalImport(s, IsGoToken)
}

func isDottedTokens(s string) bool {
	if s == "" {
		return false
	}
	for _, p := range strings.Split(s, ".") {
		if !IsGoToken(p) {
			return false
		}
	}
	return true
}

func isStructLit(s string) bool { return strings.HasSuffix(s, "{}") && IsGoToken(strings.TrimSuffix(s, "{}")) }

// IsServiceValue: [&|*][import.]Tok(.Tok)*  or  [&][import.]Tok{}
func IsServiceValue(s string) bool {
	v1 := s
	if strings.HasPrefix(v1, "&") || strings.HasPrefix(v1, "*") {
		v1 = v1[1:]
	}
	if withOptionalImport(v1, isDottedTokens) {
		return true
	}
	v2 := strings.TrimPrefix(s, "&")
	return withOptionalImport(v2, isStructLit)
}

func IsDecoratorTag(s string) bool { return s == "*" || IsYamlToken(s) }

// GetterVerdict: valid Go identifier, not Must-prefixed, not InContext-suffixed, not a member of the
// embedded container (names supplied by the caller, taken by reflection at run time).
func IsGetter(s string, reserved map[string]bool) bool {
	if !IsGoToken(s) || reserved[s] {
		return false
	}
	return !strings.HasPrefix(s, "Must") && !strings.HasSuffix(s, "InContext")
}

// ArgVerdict: is the string an acceptable argument?
func IsArgument(s string, knownFn func(string) bool) (ok bool, judged bool) {
	a := Classify(strVal(s))
	switch a.Kind {
	case ArgService, ArgTagged:
		return !a.Bad, true
	case ArgValue:
		return IsServiceValue(a.Expr), true
	case ArgContainer:
		return true, true
	}
	chunks, bad := ParsePattern(s, knownFn)
	if bad != "" {
		return false, true
	}
	for _, ch := range chunks {
		if ch.Kind == "call" {
			return false, false // acceptance depends on the Go text of the arguments
		}
	}
	return true, true
}

func strVal(s string) cfg.Val { return cfg.Str(s) }
