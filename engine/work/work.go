// Package work creates the per-check scratch workspace: a copy of /repo's working
// tree, the gontainer binary built from it, a hard-linked Go build cache and the
// probe module. Everything lives under one temporary directory removed by Close.
package work

import (
	"bytes"
	"context"
	"crypto/sha256"
	"encoding/hex"
	"errors"
	"fmt"
	"os"
	"os/exec"
	"path/filepath"
	"regexp"
	"strings"
	"sync"
	"sync/atomic"
	"syscall"
	"time"
)

type WS struct {
	Dir     string // scratch root
	Repo    string // copy of the repository working tree
	Bin     string // gontainer binary built from Repo
	GoCache string
	Mod     string // probe module root (module "fixt")
	Home    string // /verif
	SrcRepo string // where Repo was copied from
	EmptyBin string // a directory without any executable (sanitised PATH)
	mu      sync.Mutex
	seq     int
}

func envOr(k, d string) string {
	if v := os.Getenv(k); v != "" {
		return v
	}
	return d
}

// GoEnv is the environment for every `go` command the machinery runs.
func (w *WS) GoEnv() []string {
	return []string{
		"PATH=" + os.Getenv("PATH"),
		"HOME=" + envOr("HOME", "/root"),
		"GOFLAGS=-mod=mod",
		"GOPROXY=off",
		"GOSUMDB=off",
		"GOTOOLCHAIN=local",
		"GOCACHE=" + w.GoCache,
		"GOMODCACHE=" + envOr("GOMODCACHE", filepath.Join(envOr("HOME", "/root"), "go/pkg/mod")),
		"CGO_ENABLED=0",
		"TMPDIR=" + filepath.Join(w.Dir, "tmp"),
	}
}

// GoEnvCgo is GoEnv with cgo on (needed by -race).
func (w *WS) GoEnvCgo() []string {
	e := w.GoEnv()
	for i := range e {
		if e[i] == "CGO_ENABLED=0" {
			e[i] = "CGO_ENABLED=1"
		}
	}
	return e
}

func New(home, srcRepo string) (*WS, error) {
	base := envOr("VERIF_TMP", os.TempDir())
	dir, err := os.MkdirTemp(base, "vw-")
	if err != nil {
		return nil, err
	}
	w := &WS{Dir: dir, Repo: filepath.Join(dir, "repo"), Bin: filepath.Join(dir, "bin", "gontainer"),
		GoCache: filepath.Join(dir, "gocache"), Mod: filepath.Join(dir, "ws"), Home: home, SrcRepo: srcRepo,
		EmptyBin: filepath.Join(dir, "emptybin")}
	for _, d := range []string{"bin", "tmp", "emptybin", "ws"} {
		if err := os.MkdirAll(filepath.Join(dir, d), 0o755); err != nil {
			return nil, err
		}
	}
	// hard-linked copy of the warm build cache: objects produced for generated code die with the workspace
	warm := envOr("VERIF_GOCACHE_BASE", filepath.Join(envOr("HOME", "/root"), ".cache", "go-build"))
	if st, err := os.Stat(warm); err == nil && st.IsDir() {
		if out, err := exec.Command("cp", "-al", warm, w.GoCache).CombinedOutput(); err != nil {
			_ = os.RemoveAll(w.GoCache)
			_ = out
		}
	}
	_ = os.MkdirAll(w.GoCache, 0o755)
	if out, err := exec.Command("rsync", "-a", "--exclude", ".git", srcRepo+"/", w.Repo+"/").CombinedOutput(); err != nil {
		return nil, fmt.Errorf("rsync: %v: %s", err, out)
	}
	return w, nil
}

func (w *WS) Close() {
	if os.Getenv("VERIF_KEEP") != "" {
		fmt.Fprintln(os.Stderr, "keeping workspace", w.Dir)
		return
	}
	_ = exec.Command("chmod", "-R", "u+rwx", w.Dir).Run()
	_ = os.RemoveAll(w.Dir)
}

// BuildTool builds the gontainer binary from the copied tree. tags always contain "verif".
func (w *WS) BuildTool(out string, ldflags string, goCmd string, race bool) error {
	return w.BuildToolTarget(out, ldflags, goCmd, race, ".")
}

// BuildToolTarget builds the tool from the given target: "." (the package, as `go install` and goreleaser do) or
// "main.go" (the file list the Makefile's build target passes).
func (w *WS) BuildToolTarget(out string, ldflags string, goCmd string, race bool, target string) error {
	if goCmd == "" {
		goCmd = "go"
	}
	args := []string{"build", "-buildvcs=false", "-tags", "verif", "-o", out}
	if ldflags != "" {
		args = append(args, "-ldflags", ldflags)
	}
	env := w.GoEnv()
	if race {
		args = append(args, "-race")
		env = w.GoEnvCgo()
	}
	args = append(args, target)
	cmd := exec.Command(goCmd, args...)
	cmd.Dir = w.Repo
	cmd.Env = env
	b, err := cmd.CombinedOutput()
	if err != nil {
		return fmt.Errorf("go build gontainer: %v\n%s", err, b)
	}
	return nil
}

func (w *WS) Build() error { return w.BuildTool(w.Bin, "", "", false) }

// TempDir returns a fresh directory under the workspace.
func (w *WS) TempDir(prefix string) string {
	w.mu.Lock()
	w.seq++
	n := w.seq
	w.mu.Unlock()
	d := filepath.Join(w.Dir, "t", fmt.Sprintf("%s%06d", prefix, n))
	_ = os.MkdirAll(d, 0o755)
	return d
}

type Result struct {
	Exit     int
	Stdout   string
	Stderr   string
	TimedOut bool
	Signal   string
	Dur      time.Duration
}

// SaneEnv is the fixed environment gontainer runs in (no go command reachable; see DESIGN 2.2).
func (w *WS) SaneEnv() []string {
	return []string{
		"PATH=" + w.EmptyBin,
		"HOME=" + filepath.Join(w.Dir, "tmp"),
		"GOPATH=" + filepath.Join(w.Dir, "tmp", "gopath"),
		"GOMODCACHE=" + filepath.Join(w.Dir, "tmp", "gopath", "pkg", "mod"),
		"GOFLAGS=-mod=mod",
		"GOPROXY=off",
		"NO_COLOR=1",
		"TMPDIR=" + filepath.Join(w.Dir, "tmp"),
	}
}

// Run executes a command with a generous watchdog.
func Run(bin, cwd string, env []string, timeout time.Duration, stdin []byte, args ...string) Result {
	return RunTo("", bin, cwd, env, timeout, stdin, args...)
}

// RunTo is Run with the child's standard output opened on stdoutPath (e.g. /dev/full: every write fails with ENOSPC); "" = captured.
func RunTo(stdoutPath, bin, cwd string, env []string, timeout time.Duration, stdin []byte, args ...string) Result {
	return RunToMode(stdoutPath, os.O_WRONLY, bin, cwd, env, timeout, stdin, args...)
}

func RunToMode(stdoutPath string, mode int, bin, cwd string, env []string, timeout time.Duration, stdin []byte, args ...string) Result {
	ctx, cancel := context.WithTimeout(context.Background(), timeout)
	defer cancel()
	cmd := exec.CommandContext(ctx, bin, args...)
	cmd.Dir = cwd
	cmd.Env = env
	// stdout and stderr go to files, not pipes: the child gets the descriptors themselves, so everything it wrote is there when it
	// has exited. (With pipes the output is copied by goroutines of this process; on a loaded machine they can lag behind the exit,
	// and exec's WaitDelay then cuts the output short - seen once as a report that ended in the middle of a line.)
	var so, se *os.File
	var ferr error
	if so, ferr = os.CreateTemp("", "vrun-out-"); ferr == nil {
		defer func() { so.Close(); os.Remove(so.Name()) }()
		if se, ferr = os.CreateTemp("", "vrun-err-"); ferr == nil {
			defer func() { se.Close(); os.Remove(se.Name()) }()
		}
	}
	if ferr != nil {
		return Result{Exit: -1, Stderr: "exec error: " + ferr.Error()}
	}
	cmd.Stdout = so
	cmd.Stderr = se
	if stdoutPath != "" {
		f, err := os.OpenFile(stdoutPath, mode, 0)
		if err != nil {
			return Result{Exit: -1, Stderr: "exec error: " + err.Error()}
		}
		defer f.Close()
		cmd.Stdout = f
	}
	if stdin != nil {
		cmd.Stdin = bytes.NewReader(stdin)
	}
	cmd.WaitDelay = 30 * time.Second
	t0 := time.Now()
	err := cmd.Run()
	bo, _ := os.ReadFile(so.Name())
	be, _ := os.ReadFile(se.Name())
	r := Result{Stdout: string(bo), Stderr: string(be), Dur: time.Since(t0)}
	if ctx.Err() == context.DeadlineExceeded {
		r.TimedOut = true
	}
	if err != nil {
		var ee *exec.ExitError
		if errors.As(err, &ee) {
			r.Exit = ee.ExitCode()
			if ws, ok := ee.Sys().(syscall.WaitStatus); ok && ws.Signaled() {
				r.Signal = ws.Signal().String()
				r.Exit = 128 + int(ws.Signal())
			}
		} else {
			r.Exit = -1
			r.Stderr += "\nexec error: " + err.Error()
		}
	}
	return r
}

// Tool runs the built gontainer with the sanitised environment.
func (w *WS) Tool(cwd string, args ...string) Result { return w.ToolBin(w.Bin, cwd, nil, args...) }

// toolTimeouts counts tool runs that hit the watchdog. A normal run takes ~15 ms; the first watchdog waits 120 s
// (a loaded machine must never produce a false hang), later ones 20 s, and after 5 of them 8 s: a tree that hangs
// must not turn a check into hours of waiting.
var toolTimeouts int32

func toolTimeout() time.Duration {
	switch n := atomic.LoadInt32(&toolTimeouts); {
	case n == 0:
		return 120 * time.Second
	case n < 5:
		return 20 * time.Second
	}
	return 8 * time.Second
}

// ToolTimeouts reports how many tool runs were stopped by the watchdog in this process.
func ToolTimeouts() int { return int(atomic.LoadInt32(&toolTimeouts)) }

func (w *WS) ToolBin(bin, cwd string, env []string, args ...string) Result {
	if env == nil {
		env = w.SaneEnv()
	}
	r := Run(bin, cwd, env, toolTimeout(), nil, args...)
	if r.TimedOut {
		atomic.AddInt32(&toolTimeouts, 1)
	}
	return r
}

// Go runs a go command in dir with the machinery's Go environment.
func (w *WS) Go(dir string, cgo bool, timeout time.Duration, args ...string) Result {
	env := w.GoEnv()
	if cgo {
		env = w.GoEnvCgo()
	}
	return Run("go", dir, env, timeout, nil, args...)
}

func Sha(b []byte) string {
	h := sha256.Sum256(b)
	return hex.EncodeToString(h[:])
}

// FileState is everything the C10 monitor compares before/after a run.
type FileState struct {
	Exists bool
	Mode   string
	Size   int64
	Ino    uint64
	Sha    string
	IsDir  bool
	Link   string
}

func StatFile(p string) FileState {
	var fs FileState
	st, err := os.Lstat(p)
	if err != nil {
		return fs
	}
	fs.Exists = true
	fs.Mode = st.Mode().String()
	fs.Size = st.Size()
	fs.IsDir = st.IsDir()
	if sys, ok := st.Sys().(*syscall.Stat_t); ok {
		fs.Ino = sys.Ino
	}
	if st.Mode()&os.ModeSymlink != 0 {
		fs.Link, _ = os.Readlink(p)
		return fs
	}
	if st.Mode().IsRegular() {
		if b, err := os.ReadFile(p); err == nil {
			fs.Sha = Sha(b)
		} else {
			fs.Sha = "unreadable"
		}
	}
	return fs
}

var reHelpers = regexp.MustCompile(`(?m)^\s*(github\.com/gontainer/gontainer-helpers/v3)\s+(\S+)`)

// HelpersVersion reads the pinned runtime version from the copied go.mod.
func (w *WS) HelpersVersion() (string, error) {
	b, err := os.ReadFile(filepath.Join(w.Repo, "go.mod"))
	if err != nil {
		return "", err
	}
	m := reHelpers.FindSubmatch(b)
	if m == nil {
		return "", errors.New("gontainer-helpers not found in go.mod")
	}
	return string(m[2]), nil
}

// InitMod lays out the probe module "fixt": go.mod pinned to the repository's runtime
// version, go.sum from the repository, and the fixture packages from /verif/fixtures.
func (w *WS) InitMod() error {
	v, err := w.HelpersVersion()
	if err != nil {
		return err
	}
	gomod := "module fixt\n\ngo 1.21\n\nrequire github.com/gontainer/gontainer-helpers/v3 " + v + "\n"
	if err := os.WriteFile(filepath.Join(w.Mod, "go.mod"), []byte(gomod), 0o644); err != nil {
		return err
	}
	sum, err := os.ReadFile(filepath.Join(w.Repo, "go.sum"))
	if err != nil {
		return err
	}
	if err := os.WriteFile(filepath.Join(w.Mod, "go.sum"), sum, 0o644); err != nil {
		return err
	}
	src := filepath.Join(w.Home, "fixtures")
	if out, err := exec.Command("rsync", "-a", src+"/", w.Mod+"/").CombinedOutput(); err != nil {
		return fmt.Errorf("rsync fixtures: %v: %s", err, out)
	}
	return nil
}

func WriteFile(p string, b []byte) error {
	if err := os.MkdirAll(filepath.Dir(p), 0o755); err != nil {
		return err
	}
	return os.WriteFile(p, b, 0o644)
}

func Lines(s string) []string {
	s = strings.TrimRight(s, "\n")
	if s == "" {
		return nil
	}
	return strings.Split(s, "\n")
}
