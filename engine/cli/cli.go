// Package cli parses the report `gontainer build` prints and checks the
// exit/report/file contract (C10) on every run the machinery makes.
// The parser follows the report *structure* (step lines, END marks, numbered list),
// never message wording.
package cli

import (
	"fmt"
	"os"
	"path/filepath"
	"regexp"
	"strconv"
	"strings"
	"time"

	"verif/work"
)

type Section struct {
	Name   string
	Indent int
	Status string // "ok", "fail", "ignored", "open"
	Count  int    // errors reported on the END line
	Errors []string
}

type Report struct {
	Sections  []Section
	HasErrors bool // an "Errors:" line was printed
	List      []string
	Raw       string
	ParseErr  string
}

var (
	reEnd  = regexp.MustCompile(`^(\s*)(.*?) END·*(\[✓\]|\[⨉\] \((\d+) errors?\)|ignored)$`)
	reOpen = regexp.MustCompile(`^(\s*)(.*?)·+$`)
	reItem = regexp.MustCompile(`^(\d+)\. (.*)$`)
)

func Parse(stdout string) Report {
	r := Report{Raw: stdout}
	lines := work.Lines(stdout)
	i := 0
	for ; i < len(lines); i++ {
		l := lines[i]
		if l == "Errors:" {
			r.HasErrors = true
			i++
			break
		}
		if m := reEnd.FindStringSubmatch(l); m != nil {
			s := Section{Name: m[2], Indent: len(m[1])}
			switch {
			case m[3] == "[✓]":
				s.Status = "ok"
			case m[3] == "ignored":
				s.Status = "ignored"
			default:
				s.Status = "fail"
				s.Count, _ = strconv.Atoi(m[4])
			}
			r.Sections = append(r.Sections, s)
			continue
		}
	}
	if r.HasErrors {
		next := 1
		for ; i < len(lines); i++ {
			l := lines[i]
			if m := reItem.FindStringSubmatch(l); m != nil {
				if n, _ := strconv.Atoi(m[1]); n == next {
					r.List = append(r.List, m[2])
					next++
					continue
				}
			}
			if len(r.List) == 0 {
				r.ParseErr = "text after Errors: that is not a numbered item: " + l
				continue
			}
			r.List[len(r.List)-1] += "\n" + l
		}
	}
	// attribute list entries to failing leaf sections, in order, by their counts
	top := r.FailingTop()
	if top != nil && len(r.List) == top.Count {
		leaves := r.failingLeaves(top)
		sum := 0
		for _, s := range leaves {
			sum += s.Count
		}
		if sum == len(r.List) {
			off := 0
			for _, s := range leaves {
				s.Errors = append([]string(nil), r.List[off:off+s.Count]...)
				off += s.Count
			}
		}
	}
	return r
}

// FailingTop returns the failing indent-0 section (there is at most one: the runner stops).
func (r *Report) FailingTop() *Section {
	for i := range r.Sections {
		if r.Sections[i].Indent == 0 && r.Sections[i].Status == "fail" {
			return &r.Sections[i]
		}
	}
	return nil
}

func (r *Report) failingLeaves(top *Section) []*Section {
	// sub-sections are printed (closed) before their parent closes
	var subs []*Section
	idx := -1
	for i := range r.Sections {
		if &r.Sections[i] == top {
			idx = i
		}
	}
	for i := idx - 1; i >= 0; i-- {
		if r.Sections[i].Indent == 0 {
			break
		}
		if r.Sections[i].Status == "fail" {
			subs = append([]*Section{&r.Sections[i]}, subs...)
		}
	}
	if len(subs) == 0 {
		return []*Section{top}
	}
	return subs
}

func (r *Report) Section(name string) *Section {
	for i := range r.Sections {
		if r.Sections[i].Name == name {
			return &r.Sections[i]
		}
	}
	return nil
}

// ErrorsOf returns the diagnostics attributed to the named section ("Scope", "Compile", ...).
func (r *Report) ErrorsOf(name string) []string {
	if s := r.Section(name); s != nil {
		return s.Errors
	}
	return nil
}

// Run is one observed execution of the tool.
type Run struct {
	Args     []string
	Cwd      string
	Res      work.Result
	Rep      Report
	OutPath  string
	Before   work.FileState
	After    work.FileState
	Quiet    bool
}

// Do runs the tool with -o out (absolute or relative to cwd), recording the file state before and after.
func Do(w *work.WS, bin string, env []string, cwd string, outAbs string, args ...string) Run {
	if bin == "" {
		bin = w.Bin
	}
	r := Run{Args: args, Cwd: cwd, OutPath: outAbs}
	for _, a := range args {
		if a == "--quiet" || a == "-q" {
			r.Quiet = true
		}
	}
	if outAbs != "" {
		r.Before = work.StatFile(outAbs)
	}
	r.Res = w.ToolBin(bin, cwd, env, args...)
	if outAbs != "" {
		r.After = work.StatFile(outAbs)
	}
	r.Rep = Parse(r.Res.Stdout)
	return r
}

// EarlierConfig is a small valid configuration; DoAfter generates it to the output path first.
const EarlierConfig = "meta:\n  pkg: earlier\nparameters:\n  earlier: 1\n"

// DoAfter is Do for an output path that already holds what the same tool generated a moment ago for another (valid) configuration:
// the inputs of the run that counts are written before, so the file at -o is newer than all of them. Nothing the tool documents makes
// the result of a run depend on that file. earlierOK reports whether the first run produced the file.
func DoAfter(w *work.WS, bin string, env []string, cwd string, outAbs string, args ...string) (r Run, earlierOK bool) {
	d := filepath.Join(filepath.Dir(outAbs), ".earlier-input")
	_ = os.MkdirAll(d, 0o755)
	_ = os.WriteFile(filepath.Join(d, "earlier.yaml"), []byte(EarlierConfig), 0o644)
	first := []string{"build", "-i", "earlier.yaml", "-o", outAbs}
	for _, a := range args {
		if a == "--stub" {
			first = append(first, a)
		}
	}
	e := Do(w, bin, env, d, outAbs, first...)
	return Do(w, bin, env, cwd, outAbs, args...), e.Res.Exit == 0
}

// DoPiped is Do with one more input in front of the written ones: args gets `-i base.yaml` (an empty configuration in a regular file)
// before its first -i, and the input named pipedName is a named pipe that this process feeds with content while the tool runs - what
// `generator | gontainer build -i base.yaml -i /dev/stdin` looks like. seen reports that the tool opened the pipe and read all of it.
func DoPiped(w *work.WS, bin string, env []string, cwd string, outAbs string, pipedName, content string, args ...string) (r Run, seen bool) {
	_ = os.WriteFile(filepath.Join(cwd, "base.yaml"), []byte("services: {}\n"), 0o644)
	_ = os.Remove(filepath.Join(cwd, pipedName))
	p, err := work.FeedFifo(filepath.Join(cwd, pipedName), []byte(content))
	if err != nil {
		_ = os.WriteFile(filepath.Join(cwd, pipedName), []byte(content), 0o644)
		return Do(w, bin, env, cwd, outAbs, args...), false
	}
	var a2 []string
	done := false
	for _, a := range args {
		if a == "-i" && !done {
			a2 = append(a2, "-i", "base.yaml")
			done = true
		}
		a2 = append(a2, a)
	}
	r = Do(w, bin, env, cwd, outAbs, a2...)
	o, c := p.Stop()
	return r, o && c
}

// DoStdout is Do with the tool's standard output opened on another file (e.g. /dev/full, where every write fails).
func DoStdout(w *work.WS, bin string, env []string, cwd string, outAbs string, stdoutPath string, args ...string) Run {
	return DoStdoutMode(w, bin, env, cwd, outAbs, stdoutPath, os.O_WRONLY, args...)
}

// DoStdoutMode: like DoStdout, the file is opened with the given access mode (os.O_RDONLY: a descriptor that cannot be written).
func DoStdoutMode(w *work.WS, bin string, env []string, cwd string, outAbs string, stdoutPath string, mode int, args ...string) Run {
	if bin == "" {
		bin = w.Bin
	}
	if env == nil {
		env = w.SaneEnv()
	}
	r := Run{Args: args, Cwd: cwd, OutPath: outAbs}
	if outAbs != "" {
		r.Before = work.StatFile(outAbs)
	}
	r.Res = work.RunToMode(stdoutPath, mode, bin, cwd, env, 120*time.Second, nil, args...)
	if outAbs != "" {
		r.After = work.StatFile(outAbs)
	}
	r.Rep = Parse(r.Res.Stdout)
	return r
}

// Contract checks the part of C10 that holds for every run regardless of input; it
// returns a list of breaches (empty = fine). Used as a side monitor by all checks.
func (r *Run) Contract() []string {
	var bad []string
	res := r.Res
	if res.TimedOut {
		return []string{"watchdog: run exceeded the time limit"}
	}
	if res.Exit != 0 && res.Exit != 1 {
		bad = append(bad, fmt.Sprintf("exit status %d (signal %q) is neither 0 nor 1", res.Exit, res.Signal))
	}
	if strings.Contains(res.Stderr, "goroutine ") && strings.Contains(res.Stderr, "panic") {
		bad = append(bad, "panic on stderr")
	}
	if r.Quiet {
		if res.Stdout != "" || res.Stderr != "" {
			bad = append(bad, "--quiet printed output")
		}
	} else {
		if r.Rep.ParseErr != "" {
			bad = append(bad, "report: "+r.Rep.ParseErr)
		}
		top := r.Rep.FailingTop()
		if res.Exit == 0 {
			if top != nil || r.Rep.HasErrors {
				bad = append(bad, "exit 0 but the report shows a failing step")
			}
		} else if res.Exit == 1 && res.Stderr == "" {
			// flag-parsing failures (cobra) print on stderr and have no report; they are not judged here
			if top == nil {
				bad = append(bad, "exit 1 without a failing step in the report")
			} else {
				if !r.Rep.HasErrors {
					bad = append(bad, "failing step but no Errors: list")
				}
				if len(r.Rep.List) != top.Count {
					bad = append(bad, fmt.Sprintf("numbered list has %d entries, failing step %q reports %d", len(r.Rep.List), top.Name, top.Count))
				}
				sum, leaves := 0, r.Rep.failingLeaves(top)
				for _, s := range leaves {
					sum += s.Count
				}
				if sum != top.Count {
					bad = append(bad, fmt.Sprintf("sub-step counts sum to %d, step %q reports %d", sum, top.Name, top.Count))
				}
			}
		}
	}
	if r.OutPath != "" {
		if res.Exit == 0 {
			if !r.After.Exists || r.After.IsDir || r.After.Size == 0 {
				bad = append(bad, "exit 0 but no generated file at -o")
			}
		} else if r.Before != r.After {
			bad = append(bad, fmt.Sprintf("failing run changed the -o path: before=%+v after=%+v", r.Before, r.After))
		}
	}
	return bad
}

// Names extracts the names a diagnostic mentions: "quoted", @service and %param% tokens.
var reName = regexp.MustCompile(`"((?:[^"\\]|\\.)*)"|@([A-Za-z][A-Za-z0-9._-]*)|%([A-Za-z][A-Za-z0-9._-]*)%`)

func Names(diag string) []string {
	var out []string
	for _, m := range reName.FindAllStringSubmatch(diag, -1) {
		switch {
		case m[2] != "":
			out = append(out, m[2])
		case m[3] != "":
			out = append(out, m[3])
		default:
			s, err := strconv.Unquote(`"` + m[1] + `"`)
			if err != nil {
				s = m[1]
			}
			out = append(out, s)
		}
	}
	return out
}
