package work

import (
	"sync"
	"syscall"
	"time"
)

// Fifo is a named pipe at Path that this process feeds: as soon as somebody opens it for reading the content is written into it, in
// pieces with short pauses in between (what `generator | tool -i /dev/stdin` or `-i <(generator)` look like to the reader).
type Fifo struct {
	Path     string
	stop     chan struct{}
	done     sync.WaitGroup
	opened   bool
	complete bool
}

// FeedFifo creates the pipe and starts the writer. Stop must be called after the reader has exited.
func FeedFifo(path string, content []byte) (*Fifo, error) {
	if err := syscall.Mkfifo(path, 0o644); err != nil {
		return nil, err
	}
	f := &Fifo{Path: path, stop: make(chan struct{})}
	f.done.Add(1)
	go func() {
		defer f.done.Done()
		fd := -1
		for fd < 0 {
			// O_NONBLOCK: the open fails with ENXIO as long as nobody reads
			d, err := syscall.Open(path, syscall.O_WRONLY|syscall.O_NONBLOCK, 0)
			if err == nil {
				fd = d
				break
			}
			select {
			case <-f.stop:
				return
			default:
				time.Sleep(500 * time.Microsecond)
			}
		}
		defer syscall.Close(fd)
		f.opened = true
		rest := content
		piece := 0
		for len(rest) > 0 {
			n := len(rest)
			// a short first piece, then a line-sized one, then the rest in pipe-buffer-sized pieces
			switch piece {
			case 0:
				if n > 7 {
					n = 7
				}
			case 1:
				if n > 300 {
					n = 300
				}
			default:
				if n > 32768 {
					n = 32768
				}
			}
			w, err := syscall.Write(fd, rest[:n])
			if w > 0 {
				rest = rest[w:]
				piece++
				if piece <= 3 {
					time.Sleep(2 * time.Millisecond)
				}
				continue
			}
			if err == syscall.EAGAIN || err == syscall.EINTR {
				select {
				case <-f.stop:
					return
				default:
					time.Sleep(500 * time.Microsecond)
					continue
				}
			}
			return // EPIPE: the reader went away
		}
		f.complete = true
	}()
	return f, nil
}

// Stop ends the writer and reports whether the pipe was ever opened by a reader and whether everything was written.
func (f *Fifo) Stop() (opened, complete bool) {
	close(f.stop)
	f.done.Wait()
	return f.opened, f.complete
}
