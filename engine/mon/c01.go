package mon

import (
	"fmt"
	"math/rand"
	"os"
	"path/filepath"
	"regexp"
	"strings"
	"time"
	"verif/cfg"
	"verif/cli"
	"verif/work"

	"verif/gen"
	"verif/probe"
)

func init() { Register("C01", "exploration", checkC01) }

var (
	rePos    = regexp.MustCompile(`^[^:\s]+\.go:\d+:\d+:\s*`)
	reIdentN = regexp.MustCompile(`\bi[0-9a-f]+_`)
	reQuoted = regexp.MustCompile(`"[^"]*"`)
	reNum    = regexp.MustCompile(`\d+`)
)

// errClass reduces a compiler message to its class (positions, generated aliases and literals removed).
func errClass(compileErr string) string {
	for _, ln := range strings.Split(compileErr, "\n") {
		ln = strings.TrimSpace(ln)
		if ln == "" || strings.HasPrefix(ln, "#") {
			continue
		}
		ln = rePos.ReplaceAllString(ln, "")
		ln = reIdentN.ReplaceAllString(ln, "iN_")
		ln = reQuoted.ReplaceAllString(ln, `"…"`)
		ln = reNum.ReplaceAllString(ln, "N")
		return sigWords(ln)
	}
	return "unknown"
}

// judgeC01 applies the C01 oracle to units that went through generate+compile(+probe).
func judgeC01(c *Ctx, units []*probe.Unit) {
	pc := NewPairCoverage()
	defer func() { c.Set("pairwise_coverage", pc.Report()) }()
	for _, u := range units {
		if u.Accepted && u.Cfg != nil {
			pc.Add(Features(u.Cfg, len(u.Files), u.Stub))
		}
		mode := "normal"
		if u.Stub {
			mode = "stub"
		}
		c.Add("runs_"+mode, 1)
		if !u.Accepted {
			c.Add("rejected_by_tool_"+mode, 1)
			continue
		}
		key := mode + "\n" + filesKey(u)
		c.Eval(key, len(u.Cfg.Services) > 0)
		if len(c.Samples) < 3 && len(u.Cfg.Services) > 2 {
			c.Sample(map[string]any{"mode": mode, "config": u.Files[0].Content, "generated_bytes": len(u.Source), "compiled": u.Compiled})
		}
		if !u.GofmtOK {
			c.Violate(mode+":not-gofmt-stable", fmt.Sprintf("unit %s (%s): generated file is not gofmt-stable: %s", u.ID, mode, u.GofmtDiff), unitFiles(u))
		}
		if !strings.HasPrefix(u.Source, "// Code generated") && !strings.Contains(u.Source, "\npackage ") {
			c.Violate(mode+":incomplete-file", fmt.Sprintf("unit %s (%s): generated file has no package clause", u.ID, mode), unitFiles(u))
		}
		if !u.Compiled {
			c.Add("not_compiling_"+mode, 1)
			c.Violate(mode+":does-not-compile:"+errClass(u.CompileErr), fmt.Sprintf("unit %s (%s): accepted configuration, generated code does not compile:\n%s", u.ID, mode, firstLines(u.CompileErr, 10)), unitFiles(u))
			continue
		}
		c.Add("compiled_"+mode, 1)
		if u.InitDied {
			c.Violate(mode+":init-panics", fmt.Sprintf("unit %s (%s): package initialisation died: %s", u.ID, mode, u.ProbeErr), unitFiles(u))
		} else if !u.Stub && len(u.Ops) > 0 {
			if len(u.Results) > 0 {
				c.Add("init_ran", 1)
				if r := u.Results[len(u.Results)-1]; r.Died {
					c.Add("probe_died_after_init", 1)
				}
			}
			if u.ProbeErr != "" && len(u.Results) == 0 {
				c.Violate(mode+":probe:"+sigWords(u.ProbeErr), fmt.Sprintf("unit %s: %s", u.ID, u.ProbeErr), unitFiles(u))
			}
		}
	}
}

func filesKey(u *probe.Unit) string {
	var sb strings.Builder
	for _, f := range u.Files {
		sb.WriteString(f.Name + "\n" + f.Content + "\n")
	}
	return sb.String()
}

func checkC01(c *Ctx) error {
	c.Rule = "seeded random configurations over the quantifier's dimension table (creation method, value/type forms, getter types incl. value types, must-getter settings, scopes, tags, calls, withers, fields, decorators, literal types incl. non-finite floats, pattern shapes, import forms and alias names, 1-4 input files), each run through the real binary in normal and --stub mode; accepted outputs are checked with gofmt, compiled by the Go compiler against the runtime version pinned in /repo/go.mod, and linked into a probe whose start proves that every init() ran; plus pairs of getters from a pool in which one getter spells another one's Must…/…InContext accessor (accepted pairs have to compile); pairs of configurations generated into one package as two containers have to compile together. distinct = distinct (mode, input files); non-trivial = at least one service"
	c.Assumptions = []string{"the Go compiler and gofmt are the judges", "all symbols exist in the fixture universe (the property's proviso)", "identifiers are distinct legal non-predeclared Go identifiers by construction of the generator"}
	lab, err := probe.NewLab(c.W)
	if err != nil {
		return err
	}
	n := c.Pick(350, 12000)
	var units []*probe.Unit
	for i := 0; i < n; i++ {
		r := rand.New(rand.NewSource(c.Seed*7919 + int64(i)))
		o := gen.DefaultOpts()
		o.MainPkg = i%97 == 5
		o.HostileAlias = i%5 == 1 // alias names taken from the collision space
		o.StdPkgs = i%3 == 0      // the packages the template imports for itself are also used by the configuration
		conf := gen.Behaviour(r, o)
		var flags []string
		if i%7 == 3 {
			// parameters / services that only exist at run time (OverrideParam, OverrideService): their definitions are
			// removed (all parameters in a quarter of these cases), the references stay, the documented flags are given
			flags = gen.Externalise(r, conf, (i/7)%4)
		}
		files := gen.Split(r, conf, i%4)
		id := fmt.Sprintf("c%05d", i)
		ops := []probe.Op{{Op: "new"}, {Op: "circular"}}
		prev := ""
		if i%6 == 2 {
			// the -o path already holds a longer Go file (the output of an earlier, bigger configuration)
			prev = "package previous\n\n" + strings.Repeat("// line of the previous, longer output\nvar _ = 1\n", 6000)
		}
		if flags != nil {
			c.Add("units_with_definitions_left_to_run_time", 2)
		}
		units = append(units, &probe.Unit{ID: id, Cfg: conf, Files: files, Ops: ops, Previous: prev, Flags: flags})
		units = append(units, &probe.Unit{ID: id, Cfg: conf, Files: files, Stub: true, Previous: prev, Flags: flags})
	}
	// identifier interplay: pairs of getters that are distinct legal identifiers, with and without must-getters, over a pool
	// in which one getter spells what another one's Must…/…InContext accessor is called. Whatever the tool decides about a
	// pair, an accepted one has to compile (in both modes)
	pool := []string{"er", "Muster", "erInContext", "x", "Mustx", "X", "MustX", "get", "Mustget", "MustgetInContext", "GetA", "GetAInContext", "MusterInContext", "Er",
		// the names of what the generated file declares for itself (helper methods, locals, the embedded field): most are not
		// legal getters today; should one ever be accepted, the output still has to compile
		"_getEnv", "_getEnvInt", "_paramTodo", "_concatenateChunks", "_callProvider", "_x", "container", "Container_", "c", "s", "err", "result", "ctx", "New", "init", "main"}
	gi := 0
	for a := range pool {
		for b := range pool {
			if a == b || (!c.Thorough() && (a+b)%2 == 1 && a > 3 && b > 3) || (a >= 14 && b >= 14 && (a+b)%3 != 0) {
				continue
			}
			for _, must := range []bool{true, false} {
				conf := &cfg.Config{Meta: cfg.Meta{Pkg: cfg.P("gen"), Imports: []cfg.KS{{K: "pa", V: "fixt/pa"}}}}
				if !must {
					conf.Meta.DefaultMustGetter = cfg.P(true) // the must-getters come from the default
				}
				sa := cfg.Service{Name: "a", Constructor: cfg.P("pa.New"), Getter: cfg.P(pool[a]), Type: cfg.P("*pa.Obj")}
				sb := cfg.Service{Name: "b", Constructor: cfg.P("pa.New"), Getter: cfg.P(pool[b])}
				if must {
					sa.MustGetter = cfg.P(true)
				}
				conf.Services = []cfg.Service{sa, sb}
				id := fmt.Sprintf("g%05d", gi)
				gi++
				files := []probe.File{{Name: "gontainer.yaml", Content: conf.YAML()}}
				units = append(units, &probe.Unit{ID: id, Cfg: conf, Files: files, Ops: []probe.Op{{Op: "new"}}})
				units = append(units, &probe.Unit{ID: id, Cfg: conf, Files: files, Stub: true})
			}
		}
	}
	c.Set("getter_pair_units", gi)
	if err := runUnits(c, lab, units, false); err != nil {
		return err
	}
	if _, err := lab.RunStubProbe(units); err != nil {
		return err
	}
	judgeC01(c, units)
	cohabitPairs(c, lab, c.Pick(24, 300))
	// accept/reject must not depend on the mode (shared with C17; cheap to assert here)
	for i := 0; i+1 < len(units); i += 2 {
		if units[i].Accepted != units[i+1].Accepted {
			c.Violate("accept-differs-by-mode", fmt.Sprintf("unit %s: accepted normally=%v, with --stub=%v", units[i].ID, units[i].Accepted, units[i+1].Accepted), unitFiles(units[i]))
		}
	}
	return nil
}

// cohabitPairs generates pairs of accepted configurations into ONE package (different container types and constructors, as an
// application with two dependency graphs does): each generated file is complete on its own and both compile together.
func cohabitPairs(c *Ctx, lab *probe.Lab, nPairs int) {
	Par(nPairs, 8, func(k int) {
		r := rand.New(rand.NewSource(c.Seed*4099 + int64(k)))
		o := gen.DefaultOpts()
		o.BigProb = 0
		dir := filepath.Join(c.W.Mod, "gen", fmt.Sprintf("pair%04d", k))
		cwd := c.W.TempDir("c01p")
		files := map[string]string{}
		ok := true
		for j, nm := range []string{"A", "B"} {
			conf := gen.Behaviour(r, o)
			conf.Meta.Pkg = cfg.P("cohabit")
			conf.Meta.ContainerType = cfg.P("Ctr" + nm)
			conf.Meta.ContainerConstructor = cfg.P("New" + nm)
			conf.Meta.DefaultMustGetter = cfg.P(true)
			y := conf.YAML()
			in := fmt.Sprintf("%c.yaml", 'a'+j)
			_ = work.WriteFile(filepath.Join(cwd, in), []byte(y))
			files["input/"+in] = y
			out := filepath.Join(dir, fmt.Sprintf("gen_%c.go", 'a'+j))
			_ = os.MkdirAll(dir, 0o755)
			run := cli.Do(c.W, "", nil, cwd, out, "build", "-i", in, "-o", out)
			ok = ok && run.Res.Exit == 0
		}
		if !ok {
			_ = os.RemoveAll(dir)
			c.Add("container_pairs_with_a_rejected_half", 1)
			return
		}
		_ = lab.LocalFiles(dir, "cohabit")
		res := c.W.Go(c.W.Mod, false, 10*time.Minute, "build", "./gen/"+filepath.Base(dir)+"/")
		c.Eval("pair:"+files["input/a.yaml"]+files["input/b.yaml"], true)
		c.Add("container_pairs_compiled_in_one_package", 1)
		if res.Exit != 0 {
			for _, f := range []string{"gen_a.go", "gen_b.go"} {
				b, _ := os.ReadFile(filepath.Join(dir, f))
				files[f] = string(b)
			}
			c.Violate("two-containers-in-one-package:"+errClass(res.Stderr+res.Stdout), fmt.Sprintf("two accepted configurations (container types CtrA/CtrB, constructors NewA/NewB) generated into one package do not compile together:\n%s", firstLines(res.Stderr+res.Stdout, 10)), files)
		}
		_ = os.RemoveAll(dir)
	})
}
