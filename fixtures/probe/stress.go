//go:build !gontainerstub

package probe

// StressRes is filled by the concurrent probe (C20); see stress_impl.go.
type StressRes struct {
	Ops        int                           `json:"ops"`
	Goroutines int                           `json:"goroutines"`
	Errors     []string                      `json:"errors,omitempty"`
	Panics     []string                      `json:"panics,omitempty"`
	StartOrder []int                         `json:"start_order,omitempty"`
	Serials    map[string][]int64            `json:"serials,omitempty"`     // op key -> distinct serials observed
	CtxSerials map[string]map[string][]int64 `json:"ctx_serials,omitempty"` // service -> ctx label -> serials
	CtxReach   map[string][]int64            `json:"ctx_reach,omitempty"`   // ctx label -> identities reachable from anything handed out in that context
	Counts     map[string]int64              `json:"counts,omitempty"`
	OKOps      map[string]int                `json:"ok_ops,omitempty"` // op key -> successful executions
}

func (r *runner) stress(op Op) *StressRes { return stressRun(r, op) }
