package mon

import (
	"fmt"
	"math/rand"
	"regexp"
	"sort"
	"strings"

	"verif/cfg"
	"verif/gen"
	"verif/probe"
	"verif/ref"
)

func init() { Register("C20", "exploration", checkC20) }

var (
	reRaceFrame = regexp.MustCompile(`(?m)^  ([^\s(]+)\(`)
)

// raceKey reduces a race report to the functions on its stacks (line numbers and addresses stripped).
func raceKey(blk string) (key string, frames []string) {
	for _, m := range reRaceFrame.FindAllStringSubmatch(blk, -1) {
		frames = append(frames, m[1])
	}
	k := frames
	if len(k) > 12 {
		k = k[:12]
	}
	return strings.Join(k, "<"), frames
}

// c20Setup is executed once per container before the goroutines start: the todo service gets its real, contextual definition.
var c20Setup = probe.Op{Op: "overridesvc", Name: "lateCtx", Ctor: "fixt/pa.New", Scope: "contextual", Deps: []probe.DepSpec{{Dep: "value", T: "string", V: "late"}}}

func checkC20(c *Ctx) error {
	confN, G, reps, rounds := c.Pick(32, 160), c.Pick(32, 64), c.Pick(12, 30), c.Pick(3, 8)
	c.Rule = fmt.Sprintf("%d seeded configurations from the behavioural generator (race-free user code: no service is a package-level variable) x %d goroutines x %d operations each x %d repetitions with different seeds, mixed Get / GetParam / GetTaggedBy / getter / GetInContext on G/4 shared contexts, released from one barrier in seeded random order, fixtures in stress mode (Gosched + 0-200us sleeps inside constructors, methods, decorators and parameter functions), probe built with -race. Oracles: zero race-detector reports; per-symbol invocation counters equal to those of the reference container executing the same multiset of operations sequentially (so every shared service is constructed and every parameter evaluated at most once); one serial per shared service; contextual serials never shared between two attached contexts. distinct = distinct (configuration, round); non-trivial = >=2 goroutines touched the same shared or contextual service", confN, G, reps, rounds)
	c.Assumptions = []string{"only schedules that occurred are judged", "writers (Override*, HotSwap) are outside the property and are not driven", "counter equality with a sequential execution is implied by at-most-once construction plus deterministic per-request construction of non-shared services"}
	lab, err := probe.NewLab(c.W)
	if err != nil {
		return err
	}
	var units []*probe.Unit
	type plan struct {
		flat  [][]probe.Op // per round
		seeds []int64
		env   []probe.Op
	}
	plans := map[string]*plan{}
	for i := 0; i < confN; i++ {
		r := rand.New(rand.NewSource(c.Seed*104729 + int64(i)))
		o := gen.DefaultOpts()
		o.NoGlobals = true
		o.NonFinite = false
		o.ScopeProb = 0.5
		o.ContextualBias = i%2 == 0
		conf := gen.Behaviour(r, o)
		// every generated helper closure is shared by all goroutines: make sure several parameters and arguments go
		// through each of them (env, envInt, todo, concatenation, function calls)
		for k := 0; k < 3; k++ {
			conf.Params = append(conf.Params,
				cfg.KV{K: fmt.Sprintf("envS%d", k), V: cfg.Str(fmt.Sprintf("%%env(\"VERIF_ENV_%d\", \"d%d\")%%", k, k))},
				cfg.KV{K: fmt.Sprintf("envI%d", k), V: cfg.Str(fmt.Sprintf("%%envInt(\"VERIF_ENVI_%d\", %d)%%", k, 100+k))},
				cfg.KV{K: fmt.Sprintf("cat%d", k), V: cfg.Str(fmt.Sprintf("a%%envS%d%%-%%envI%d%%", k, k))},
				cfg.KV{K: fmt.Sprintf("td%d", k), V: cfg.Str(fmt.Sprintf("%%todo(\"later %d\")%%", k))})
		}
		// long concatenations (9, 11 and 17 chunks), as parameters and - below - as arguments of services of every scope: whatever
		// a generated helper does for long patterns, it does it for several goroutines at once (round 13, S250)
		conf.Params = append(conf.Params,
			cfg.KV{K: "long0", V: cfg.Str("%envS0%-%envI0%-%envS1%-%envI1%-%envS2%")},
			cfg.KV{K: "long1", V: cfg.Str("x%envS1%/%envI1%/%envS2%/%envI2%/%envS0%y")},
			cfg.KV{K: "long2", V: cfg.Str("%envI2%%envS2%%envI1%%envS1%%envI0%%envS0%%cat0%%cat1%%cat2%:%envS0%%envS1%%envS2%%envI0%%envI1%%envI2%%cat0%")})
		for si := range conf.Services {
			sv := &conf.Services[si]
			if sv.Constructor != nil && !sv.IsTodo() && si%3 == 1 {
				sv.Args = append(sv.Args, cfg.Str(fmt.Sprintf("%%envS%d%%.%%envI%d%%.%%envS%d%%.%%envI%d%%.%%cat%d%%", si%3, (si+1)%3, (si+2)%3, si%3, (si+1)%3)))
			}
		}
		for si := range conf.Services {
			sv := &conf.Services[si]
			if sv.Constructor != nil && !sv.IsTodo() {
				sv.Args = append(sv.Args, cfg.Str(fmt.Sprintf("%%env(\"VERIF_ENV_%d\", \"x\")%%:%%envInt(\"VERIF_ENVI_%d\", 7)%%", si%3, si%3)))
			}
		}
		// parameters that are nothing but a reference to a parameter computed by a function (and a reference to that reference):
		// however many of them are read, the function runs once
		conf.Meta.Functions = append(conf.Meta.Functions, cfg.KS{K: "c20fn", V: `"fixt/pa".Fn`}, cfg.KS{K: "c20echo", V: `"fixt/pb".FnEcho`})
		conf.Params = append(conf.Params,
			cfg.KV{K: "fnsrc", V: cfg.Str(`%c20fn(1, "a")%`)}, cfg.KV{K: "fnalias", V: cfg.Str("%fnsrc%")}, cfg.KV{K: "fnalias2", V: cfg.Str("%fnalias%")},
			cfg.KV{K: "echosrc", V: cfg.Str(`%c20echo("e")%`)}, cfg.KV{K: "echoalias", V: cfg.Str("%echosrc%")}, cfg.KV{K: "echocat", V: cfg.Str("<%echoalias%|%fnalias2%>")})
		// services created from a value expression, in every scope (a pointer literal is a fresh object per creation), and
		// constructor services that hold them
		for k, sc := range []string{"contextual", "non_shared", "shared", ""} {
			v := cfg.Service{Name: fmt.Sprintf("valsvc%d", k), Value: cfg.P(`&"fixt/pa".Obj{}`)}
			if sc != "" {
				v.Scope = cfg.P(sc)
			}
			h := cfg.Service{Name: fmt.Sprintf("valholder%d", k), Constructor: cfg.P(`"fixt/pa".New`), Args: []cfg.Val{cfg.Str("@" + v.Name)}}
			if k == 0 && i%2 == 0 {
				h.Scope = cfg.P("contextual")
			}
			conf.Services = append(conf.Services, v, h)
		}
		// services without a scope of their own that reach a contextual service only through a !tagged argument, a decorator
		// argument, a field or a call argument, each with a typed getter: they are contextual, also through the getter
		conf.Services = append(conf.Services,
			cfg.Service{Name: "ctxdep", Constructor: cfg.P(`"fixt/pa".New`), Scope: cfg.P("contextual"), Tags: []cfg.Tag{{Name: "ctxdeptag"}}},
			cfg.Service{Name: "viaTagged", Constructor: cfg.P(`"fixt/pa".New`), Args: []cfg.Val{cfg.Str("!tagged ctxdeptag")}, Getter: cfg.P("GetViaTagged"), Type: cfg.P(`*"fixt/pa".Obj`)},
			cfg.Service{Name: "viaDecorator", Constructor: cfg.P(`"fixt/pa".New`), Tags: []cfg.Tag{{Name: "ctxdectag"}}, Getter: cfg.P("GetViaDecorator"), Type: cfg.P(`*"fixt/pa".Obj`)},
			cfg.Service{Name: "viaField", Constructor: cfg.P(`"fixt/pa".New`), Fields: []cfg.KV{{K: "F1", V: cfg.Str("@ctxdep")}}, Getter: cfg.P("GetViaField"), Type: cfg.P(`*"fixt/pa".Obj`), MustGetter: cfg.P(true)},
			cfg.Service{Name: "viaCall", Constructor: cfg.P(`"fixt/pa".New`), Calls: []cfg.Call{{Method: "Set", Args: []cfg.Val{cfg.Str("@viaTagged")}}}, Getter: cfg.P("GetViaCall"), Type: cfg.P(`*"fixt/pa".Obj`)})
		conf.Decorators = append(conf.Decorators, cfg.Decorator{Tag: "ctxdectag", Decorator: `"fixt/pa".DecSame`, Args: []cfg.Val{cfg.Str("@ctxdep")}})
		// several shared services whose constructors write into the object they are given, each given its own `!value &T{}`
		// (the same text at every position): what one of them is given is nobody else's
		for k := 0; k < 6; k++ {
			conf.Services = append(conf.Services, cfg.Service{Name: fmt.Sprintf("toucher%d", k), Constructor: cfg.P(`"fixt/pa".NewTouch`),
				Args: []cfg.Val{cfg.Str(`!value &"fixt/pa".Obj{}`), cfg.Int(int64(k))}, Scope: cfg.P("shared")})
		}
		// a placeholder that the application replaces, before any concurrent use, by a CONTEXTUAL definition (the documented
		// OverrideService workflow), and a dependant without a scope of its own: it is contextual from then on
		conf.Services = append(conf.Services,
			cfg.Service{Name: "lateCtx", Todo: cfg.P(true)},
			cfg.Service{Name: "needsLate", Constructor: cfg.P(`"fixt/pa".New`), Args: []cfg.Val{cfg.Str("@lateCtx")}, Getter: cfg.P("GetNeedsLate"), Type: cfg.P(`*"fixt/pa".Obj`)})
		// operation alphabet of this configuration
		var alpha []probe.Op
		for _, s := range conf.Services {
			alpha = append(alpha, probe.Op{Op: "get", Name: s.Name}, probe.Op{Op: "get", Name: s.Name})
			for k := 1; k <= G/4; k += G / 8 {
				alpha = append(alpha, probe.Op{Op: "getctx", Name: s.Name, Ctx: k})
			}
			if s.Getter != nil && !s.IsTodo() && (*s.Getter)[0] >= 'A' && (*s.Getter)[0] <= 'Z' {
				alpha = append(alpha, probe.Op{Op: "getter", Name: *s.Getter})
				// every typed accessor is used from several contexts (what it hands out in one context must never show up in another)
				for k := 1; k <= G/4; k += G / 8 {
					alpha = append(alpha, probe.Op{Op: "getterctx", Name: *s.Getter + "InContext", Ctx: k})
				}
				alpha = append(alpha, probe.Op{Op: "getterctx", Name: *s.Getter + "InContext", Ctx: 1 + r.Intn(G/4)})
			}
		}
		for _, p := range conf.Params {
			alpha = append(alpha, probe.Op{Op: "param", Name: p.K})
		}
		tags := map[string]bool{}
		for _, s := range conf.Services {
			for _, t := range s.Tags {
				tags[t.Name] = true
			}
		}
		for t := range tags {
			alpha = append(alpha, probe.Op{Op: "tagged", Name: t}, probe.Op{Op: "taggedctx", Name: t, Ctx: 1 + r.Intn(G/4)})
		}
		sort.Slice(alpha, func(a, b int) bool {
			return alpha[a].Op+alpha[a].Name+fmt.Sprint(alpha[a].Ctx) < alpha[b].Op+alpha[b].Name+fmt.Sprint(alpha[b].Ctx)
		})
		pl := &plan{}
		ops := []probe.Op{}
		// some environment variables are set, some are not (a helper that caches only successful look-ups writes only then)
		for k := 0; k < 3; k++ {
			if (i+k)%3 == 2 {
				ops = append(ops, probe.Op{Op: "unsetenv", Name: fmt.Sprintf("VERIF_ENV_%d", k)}, probe.Op{Op: "unsetenv", Name: fmt.Sprintf("VERIF_ENVI_%d", k)})
			} else {
				ops = append(ops, probe.Op{Op: "setenv", Name: fmt.Sprintf("VERIF_ENV_%d", k), Val: fmt.Sprintf("v%d", k)}, probe.Op{Op: "setenv", Name: fmt.Sprintf("VERIF_ENVI_%d", k), Val: fmt.Sprintf("4%d", k)})
			}
		}
		envOps := append([]probe.Op(nil), ops...)
		pl.env = envOps
		for rd := 0; rd < rounds; rd++ {
			flat := make([]probe.Op, G*reps)
			for k := range flat {
				flat[k] = alpha[r.Intn(len(alpha))]
			}
			// first operations: every goroutine starts on a different parameter that goes through a shared generated helper
			// (each parameter has its own lock in the runtime, so these evaluations really overlap right after the barrier)
			helpers := []string{"envS0", "long0", "envI0", "long1", "cat0", "long2", "envS1", "envI1", "cat1", "long0", "envS2", "long1", "envI2", "cat2", "long2", "td0", "td1", "td2"}
			for gi := 0; gi < G; gi++ {
				flat[gi*reps] = probe.Op{Op: "param", Name: helpers[(gi+rd)%len(helpers)]}
			}
			seed := c.Seed*977 + int64(i*100+rd)
			pl.flat = append(pl.flat, flat)
			pl.seeds = append(pl.seeds, seed)
			ops = append(ops, probe.Op{Op: "new"}, c20Setup, probe.Op{Op: "stress", G: G, Reps: reps, Seed: seed, Ops: flat})
		}
		id := idOf(i)
		plans[id] = pl
		units = append(units, &probe.Unit{ID: id, Cfg: conf, Files: gen.Split(r, conf, i%4), Ops: ops})
	}
	// configurations in which a declared-shared service reaches a contextual one (through an argument, a field, a call, a tag,
	// a decorator argument): the tool has to refuse them (C05). Should it accept one, the container is run like the others -
	// what it hands out in one context must still not contain a contextual instance of another
	conflict := map[string]bool{}
	for kk := 1; kk < 2*ekCount; kk++ {
		kind := kk
		if kk >= ekCount {
			kind = kk - ekCount
			if kind == 0 {
				continue
			}
		}
		ek := [][]int{{0, kind}, {0, 0}}
		conf := scopeGraphConfig(2, ek, []string{"shared", "contextual"})
		if kk >= ekCount {
			// the same conflict with every tag named like the service that carries it
			tw, ok := tagsNamedLikeCarriers(conf)
			if !ok {
				continue
			}
			conf = tw
		}
		id := fmt.Sprintf("k%04d", kk)
		conflict[id] = true
		var alpha []probe.Op
		for k := 1; k <= G/4; k += G / 8 {
			alpha = append(alpha, probe.Op{Op: "getctx", Name: "s0", Ctx: k}, probe.Op{Op: "getctx", Name: "s1", Ctx: k})
		}
		pl := &plan{}
		var ops []probe.Op
		for rd := 0; rd < rounds; rd++ {
			r := rand.New(rand.NewSource(c.Seed*31 + int64(kind*10+rd)))
			flat := make([]probe.Op, G*reps)
			for k := range flat {
				flat[k] = alpha[r.Intn(len(alpha))]
			}
			seed := c.Seed*977 + int64(kind*100+rd)
			pl.flat = append(pl.flat, flat)
			pl.seeds = append(pl.seeds, seed)
			ops = append(ops, probe.Op{Op: "new"}, probe.Op{Op: "stress", G: G, Reps: reps, Seed: seed, Ops: flat})
		}
		plans[id] = pl
		units = append(units, &probe.Unit{ID: id, Cfg: conf, Files: []probe.File{{Name: "gontainer.yaml", Content: conf.YAML()}}, Ops: ops})
	}
	probe.RaceReports = nil
	if err := runUnits(c, lab, units, true); err != nil {
		return err
	}
	// ---- race reports
	seenRace := map[string]bool{}
	for _, blk := range probe.RaceReports {
		key, frames := raceKey(blk)
		if seenRace[key] {
			continue
		}
		seenRace[key] = true
		generatedOrRuntime := false
		for _, f := range frames {
			if strings.Contains(f, "fixt/gen/") || strings.Contains(f, "gontainer-helpers") {
				generatedOrRuntime = true
			}
		}
		if !generatedOrRuntime {
			c.Inconclusive("race report with fixture/probe frames only (harness race): " + firstLines(blk, 12))
			continue
		}
		top := "?"
		if len(frames) > 0 {
			top = frames[0]
		}
		c.Violate("data-race:"+top, "race detector report:\n"+firstLines(blk, 40), map[string]string{"race.txt": blk})
	}
	c.Set("race_reports", len(probe.RaceReports))
	c.Set("race_reports_distinct", len(seenRace))
	startOrders := map[string]bool{}
	for _, u := range units {
		files := unitFiles(u)
		if !u.Accepted {
			if conflict[u.ID] {
				c.Add("scope_conflict_configurations_refused_by_the_tool", 1)
				continue
			}
			rejected(c, rejectReason(u), fmt.Sprintf("unit %s: %s", u.ID, rejectReason(u)), files)
			continue
		}
		if !u.Compiled {
			c.Add("configs_not_compiling(reported_by_C01)", 1)
			continue
		}
		if len(u.Results) == 0 {
			c.Violate("probe:"+sigWords(u.ProbeErr), fmt.Sprintf("unit %s: %s", u.ID, u.ProbeErr), files)
			continue
		}
		pl := plans[u.ID]
		g := ref.BuildGraph(u.Cfg)
		rd := 0
		for oi, op := range u.Ops {
			if op.Op != "stress" {
				continue
			}
			if oi >= len(u.Results) || u.Results[oi].Stress == nil {
				if oi < len(u.Results) && u.Results[oi].Died {
					c.Violate("probe-died-under-stress", fmt.Sprintf("unit %s round %d: %s", u.ID, rd, u.Results[oi].Panic), files)
				}
				break
			}
			st := u.Results[oi].Stress
			c.Add("operations_executed", st.Ops)
			startOrders[fmt.Sprint(st.StartOrder)] = true
			for _, p := range st.Panics {
				c.Violate("panic-under-concurrency:"+sigWords(p), fmt.Sprintf("unit %s round %d: %s", u.ID, rd, p), files)
			}
			// nothing that is reachable from what one context was handed may be the contextual instance another context owns
			{
				ownerOf := map[int64]string{}
				for key, by := range st.CtxSerials {
					parts := strings.SplitN(key, ":", 2)
					svc := ""
					switch parts[0] {
					case "getctx":
						svc = parts[1]
					case "getterctx":
						if sv, _, _ := getterInfo(u.Cfg, parts[1]); sv != nil {
							svc = sv.Name
						}
					}
					if svc == "" || u.Cfg.Service(svc) == nil {
						continue
					}
					eff := ref.EffectiveScope(u.Cfg, g, svc)
					if svc == "lateCtx" || svc == "needsLate" {
						eff = "contextual"
					}
					if eff != "contextual" {
						continue
					}
					for lbl, ids := range by {
						for _, id := range ids {
							if id != 0 {
								ownerOf[id] = lbl
							}
						}
					}
				}
				for lbl, ids := range st.CtxReach {
					for _, id := range ids {
						if o, ok := ownerOf[id]; ok && o != lbl {
							c.Violate("contextual-instance-reachable-from-another-context", fmt.Sprintf("unit %s round %d: instance %d is the contextual instance of context %s, and it is reachable from what context %s was handed", u.ID, rd, id, o, lbl), files)
						}
					}
				}
				c.Add("contexts_checked_for_foreign_contextual_instances", len(st.CtxReach))
			}
			if conflict[u.ID] {
				c.Eval(fmt.Sprintf("%s/round%d/%s", u.ID, rd, filesKey(u)), true)
				rd++
				continue
			}
			// expected counters: the reference container executes the same multiset sequentially
			seq := append(append([]probe.Op{}, pl.env...), probe.Op{Op: "new"}, c20Setup)
			seq = append(seq, pl.flat[rd]...)
			seq = append(seq, probe.Op{Op: "counts"})
			exp := RunModel(u.Cfg, seq, nil)
			last := exp[len(exp)-1]
			contended := false
			if last.Judged && last.Counts != nil {
				c.Add("rounds_with_counter_oracle", 1)
				for k, n := range last.Counts {
					if int(st.Counts[k]) != n {
						c.Violate("invocation-count:"+k[strings.LastIndex(k, ".")+1:], fmt.Sprintf("unit %s round %d: %s invoked %d times under concurrency, %d times when the same operations run sequentially", u.ID, rd, k, st.Counts[k], n), files)
					}
				}
				for k, n := range st.Counts {
					if _, ok := last.Counts[k]; !ok && n != 0 {
						c.Violate("invocation-count:"+k[strings.LastIndex(k, ".")+1:], fmt.Sprintf("unit %s round %d: %s invoked %d times under concurrency, never sequentially", u.ID, rd, k, n), files)
					}
				}
			} else {
				c.Add("rounds_without_counter_oracle(model outside subset)", 1)
			}
			// identity oracles
			bySvc := map[string]map[int64]bool{}
			ctxBySvc := map[string]map[string]map[int64]bool{}
			for key, ids := range st.Serials {
				parts := strings.SplitN(key, ":", 2)
				var svc string
				switch parts[0] {
				case "get", "getctx":
					svc = parts[1]
				case "getter", "getterctx":
					if s, _, _ := getterInfo(u.Cfg, parts[1]); s != nil {
						svc = s.Name
					}
				default:
					continue
				}
				if svc == "" {
					continue
				}
				if bySvc[svc] == nil {
					bySvc[svc] = map[int64]bool{}
				}
				for _, id := range ids {
					bySvc[svc][id] = true
				}
				if by, ok := st.CtxSerials[key]; ok {
					if ctxBySvc[svc] == nil {
						ctxBySvc[svc] = map[string]map[int64]bool{}
					}
					for lbl, cids := range by {
						if ctxBySvc[svc][lbl] == nil {
							ctxBySvc[svc][lbl] = map[int64]bool{}
						}
						for _, id := range cids {
							ctxBySvc[svc][lbl][id] = true
						}
					}
				}
			}
			for svc, ids := range bySvc {
				if u.Cfg.Service(svc) == nil {
					continue
				}
				delete(ids, 0) // zero values carry no identity
				eff := ref.EffectiveScope(u.Cfg, g, svc)
				if svc == "lateCtx" || svc == "needsLate" {
					eff = "contextual" // by the definition registered at run time
				}
				switch eff {
				case "shared":
					if len(ids) > 0 {
						contended = true
					}
					if len(ids) > 1 {
						c.Violate("shared-service-instantiated-more-than-once", fmt.Sprintf("unit %s round %d: shared service %q was handed out as %d distinct instances %v", u.ID, rd, svc, len(ids), keysI(ids)), files)
					}
					c.Add("shared_services_checked", 1)
				case "contextual":
					owner := map[int64]string{}
					for lbl, cids := range ctxBySvc[svc] {
						delete(cids, 0)
						if len(cids) > 1 {
							c.Violate("contextual-service-not-unique-in-context", fmt.Sprintf("unit %s round %d: contextual service %q has %d instances inside context %s", u.ID, rd, svc, len(cids), lbl), files)
						}
						for id := range cids {
							if prev, dup := owner[id]; dup && prev != lbl {
								c.Violate("contextual-service-shared-between-contexts", fmt.Sprintf("unit %s round %d: instance %d of contextual service %q was observed in contexts %s and %s", u.ID, rd, id, svc, prev, lbl), files)
							}
							owner[id] = lbl
						}
						if len(cids) > 0 {
							contended = true
						}
					}
					c.Add("contextual_services_checked", 1)
				}
			}
			c.Eval(fmt.Sprintf("%s/round%d/%s", u.ID, rd, filesKey(u)), contended)
			if len(c.Samples) < 2 {
				c.Sample(map[string]any{"files": u.Files, "goroutines": st.Goroutines, "ops": st.Ops, "start_order": st.StartOrder, "ok_ops": st.OKOps, "errors_sample": head(st.Errors, 3)})
			}
			rd++
		}
	}
	c.Set("distinct_start_orders", len(startOrders))
	c.Set("goroutines", G)
	return nil
}

func keysI(m map[int64]bool) []int64 {
	var out []int64
	for k := range m {
		out = append(out, k)
	}
	sort.Slice(out, func(i, j int) bool { return out[i] < out[j] })
	return out
}

func head(s []string, n int) []string {
	if len(s) > n {
		return s[:n]
	}
	return s
}

