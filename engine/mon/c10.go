package mon

import (
	"fmt"
	"math/rand"
	"os"
	"os/exec"
	"path/filepath"
	"strings"
	"time"

	"verif/cfg"
	"verif/cli"
	"verif/gen"
	"verif/work"
)

func init() { Register("C10", "fault_enumeration", checkC10) }

type c10case struct {
	name     string
	prepare  func(dir string) (patterns []string) // lays out inputs in dir, returns -i patterns
	outRel   string                               // -o path relative to dir ("" = out.go)
	outName  string                               // another base name for the default -o path (the pre-states apply to it)
	outPrep  func(dir, out string)                // extra preparation of the output location
	expectOK func(flags []string) bool
}

const sentinel = "// sentinel: this file existed before the run\n"

var longSentinel = sentinel + strings.Repeat("// sentinel filler line, the previous content of this file was longer than the new one\n", 8000)

func validConfig(r *rand.Rand) *cfg.Config {
	o := gen.DefaultOpts()
	o.Fail = true
	return gen.Behaviour(r, o)
}

func has(flags []string, f string) bool {
	for _, x := range flags {
		if x == f {
			return true
		}
	}
	return false
}

func checkC10(c *Ctx) error {
	c.Rule = "fault classes x flag combinations x pre-states of the -o path, every run observed by the CLI-contract monitor (exit status in {0,1}; report steps/END marks/numbered list consistent; list length = failing step's count; stat+sha256 of -o before/after; on exit 0 the file is byte-identical to a clean run into a fresh directory; --quiet prints nothing and has the same exit status and file effect). Fault classes: input is a directory, a wildcard matching a file next to a directory / dangling link / link to a directory, dangling symlink, unparsable YAML, well-formed YAML of the wrong shape (one / many mismatches, one / two files), duplicate keys, unknown fields, several documents, bad anchors, file matched by two patterns, empty glob, invalid glob, grammar error, token error, cycle, scope conflict, missing parameter, missing service, formatting error (keyword package name), missing output directory, output path is a directory, plus valid/empty inputs. Thorough adds system-call fault injection with strace (n-th openat/read on inputs, openat/write on -o failing with EACCES/EIO/EMFILE/EROFS/ENOSPC). distinct = distinct (fault class, flags, pre-state, config); non-trivial = the run involves a fault or a pre-existing -o"
	c.Assumptions = []string{"the process boundary (exit code, stdout, stderr, file system) is what users observe", "flag-parsing failures (missing -i/-o) are outside the statement ('given its required flags')", "strace injection replaces the system call's result without executing it"}
	w := c.W
	r := rand.New(rand.NewSource(c.Seed))
	write := func(p, s string) { _ = work.WriteFile(p, []byte(s)) }
	valid := func() string { return validConfig(r).YAML() }
	inject := func(kind string) string {
		conf := validConfig(r)
		gen.Inject(r, conf, kind, 1)
		return conf.YAML()
	}
	always := func(ok bool) func([]string) bool { return func([]string) bool { return ok } }
	cases := []c10case{
		{name: "valid", prepare: func(d string) []string { write(filepath.Join(d, "a.yaml"), valid()); return []string{"a.yaml"} }, expectOK: always(true)},
		// the base name of -o is free text of up to NAME_MAX bytes
		{name: "valid-output-name-47", prepare: func(d string) []string { write(filepath.Join(d, "a.yaml"), valid()); return []string{"a.yaml"} }, outName: strings.Repeat("o", 44) + ".go", expectOK: always(true)},
		{name: "valid-output-name-64", prepare: func(d string) []string { write(filepath.Join(d, "a.yaml"), valid()); return []string{"a.yaml"} }, outName: "zz_generated_" + strings.Repeat("container_", 4) + "gontainer.go", expectOK: always(true)},
		{name: "valid-output-name-120", prepare: func(d string) []string { write(filepath.Join(d, "a.yaml"), valid()); return []string{"a.yaml"} }, outName: strings.Repeat("name-", 23) + "x.go", expectOK: always(true)},
		{name: "valid-output-name-255", prepare: func(d string) []string { write(filepath.Join(d, "a.yaml"), valid()); return []string{"a.yaml"} }, outName: strings.Repeat("é", 126) + ".go", expectOK: always(true)},
		{name: "valid-two-files-glob", prepare: func(d string) []string {
			write(filepath.Join(d, "conf/a.yaml"), valid())
			write(filepath.Join(d, "conf/b.yaml"), "parameters:\n  extra: 1\n")
			return []string{"conf/*.yaml"}
		}, expectOK: always(true)},
		{name: "valid-plus-empty-glob", prepare: func(d string) []string {
			write(filepath.Join(d, "a.yaml"), valid())
			return []string{"a.yaml", "nothing-*.yaml"}
		}, expectOK: always(true)},
		{name: "empty-glob-then-valid", prepare: func(d string) []string {
			write(filepath.Join(d, "a.yaml"), valid())
			return []string{"nothing-*.yaml", "a.yaml"}
		}, expectOK: always(true)},
		{name: "valid-input-is-symlink", prepare: func(d string) []string {
			write(filepath.Join(d, "real/data.txt"), valid())
			_ = os.Symlink(filepath.Join(d, "real/data.txt"), filepath.Join(d, "a.yaml"))
			return []string{"a.yaml"}
		}, expectOK: always(true)},
		{name: "empty-document", prepare: func(d string) []string { write(filepath.Join(d, "a.yaml"), "{}\n"); return []string{"a.yaml"} }, expectOK: always(true)},
		{name: "empty-file", prepare: func(d string) []string { write(filepath.Join(d, "a.yaml"), ""); return []string{"a.yaml"} }, expectOK: always(true)},
		{name: "input-is-directory", prepare: func(d string) []string { _ = os.MkdirAll(filepath.Join(d, "adir.yaml"), 0o755); return []string{"adir.yaml"} }, expectOK: always(false)},
		{name: "input-dangling-symlink", prepare: func(d string) []string {
			_ = os.Symlink(filepath.Join(d, "gone.yaml"), filepath.Join(d, "link.yaml"))
			return []string{"link.yaml"}
		}, expectOK: always(false)},
		// a wildcard that matches a readable file AND something that is not one: the unreadable match is still an input
		{name: "glob-matches-file-and-directory", prepare: func(d string) []string {
			write(filepath.Join(d, "conf/a.yaml"), valid())
			_ = os.MkdirAll(filepath.Join(d, "conf/dev"), 0o755)
			write(filepath.Join(d, "conf/dev/inner.yaml"), "parameters: {inner: 1}\n")
			return []string{[]string{"conf/*", "conf/?*", "c*/*"}[r.Intn(3)]}
		}, expectOK: always(false)},
		{name: "glob-matches-file-and-dangling-link", prepare: func(d string) []string {
			write(filepath.Join(d, "conf/a.yaml"), valid())
			_ = os.Symlink(filepath.Join(d, "conf/gone"), filepath.Join(d, "conf/b.yaml"))
			return []string{"conf/*.yaml"}
		}, expectOK: always(false)},
		{name: "glob-matches-file-and-link-to-directory", prepare: func(d string) []string {
			write(filepath.Join(d, "conf/a.yaml"), valid())
			_ = os.MkdirAll(filepath.Join(d, "elsewhere"), 0o755)
			_ = os.Symlink(filepath.Join(d, "elsewhere"), filepath.Join(d, "conf/z.yaml"))
			return []string{"conf/*.yaml"}
		}, expectOK: always(false)},
		{name: "glob-matches-directories-only", prepare: func(d string) []string {
			_ = os.MkdirAll(filepath.Join(d, "conf/dev"), 0o755)
			_ = os.MkdirAll(filepath.Join(d, "conf/prod"), 0o755)
			return []string{"conf/*"}
		}, expectOK: always(false)},
		// big inputs: 9 MiB of comments in front of what matters (a defect; valid definitions)
		{name: "huge-input-with-defect-at-the-end", prepare: func(d string) []string {
			write(filepath.Join(d, "a.yaml"), strings.Repeat("# "+strings.Repeat("padding ", 15)+"\n", 75000)+inject([]string{"token", "grammar", "cycle-svc", "cycle-param"}[r.Intn(4)]))
			return []string{"a.yaml"}
		}, expectOK: always(false)},
		{name: "huge-input-unparsable-at-the-end", prepare: func(d string) []string {
			write(filepath.Join(d, "a.yaml"), "parameters:\n  a: 1\n"+strings.Repeat("# "+strings.Repeat("padding ", 15)+"\n", 75000)+"services:\n  s: [unclosed\n")
			return []string{"a.yaml"}
		}, expectOK: always(false)},
		{name: "input-missing", prepare: func(d string) []string { return []string{"missing.yaml"} }, expectOK: always(false)},
		{name: "unparsable-yaml", prepare: func(d string) []string {
			write(filepath.Join(d, "a.yaml"), "services:\n  a: [unclosed\n")
			return []string{"a.yaml"}
		}, expectOK: always(false)},
		// well-formed YAML of the wrong shape for typed fields: the YAML library reports all mismatches of a document in ONE
		// multi-line error
		{name: "wrong-shape-one", prepare: func(d string) []string {
			write(filepath.Join(d, "a.yaml"), []string{"parameters:\n  - host: localhost\n  - port: 8080\n", "services: just a string\n", "meta: [pkg, main]\n", "decorators: {tag: x}\n",
				"services:\n  a:\n    constructor: [New]\n", "services:\n  a:\n    value: X\n    arguments: oops\n", "meta:\n  imports: [a, b]\n", "services:\n  a:\n    value: X\n    todo: maybe\n"}[r.Intn(8)])
			return []string{"a.yaml"}
		}, expectOK: always(false)},
		{name: "wrong-shape-many", prepare: func(d string) []string {
			write(filepath.Join(d, "a.yaml"), "meta:\n  pkg: [x]\n  imports: oops\n  functions: [f]\nparameters:\n  - host: localhost\n  - port: 8080\nservices:\n  a:\n    constructor: {x: y}\n    arguments: nope\n    todo: perhaps\n  b:\n    getter: [G]\n    must_getter: 7.5\ndecorators:\n  x: y\n")
			return []string{"a.yaml"}
		}, expectOK: always(false)},
		{name: "valid-and-wrong-shape", prepare: func(d string) []string {
			write(filepath.Join(d, "a.yaml"), valid())
			write(filepath.Join(d, "b.yaml"), "parameters:\n  - host: localhost\n  - port: 8080\nservices: [a, b]\n")
			return []string{"a.yaml", "b.yaml"}
		}, expectOK: always(false)},
		{name: "two-wrong-shape-files", prepare: func(d string) []string {
			write(filepath.Join(d, "a.yaml"), "parameters: [1, 2]\nservices: 5\n")
			write(filepath.Join(d, "b.yaml"), "meta: x\ndecorators: {a: b}\nparameters: 7\n")
			return []string{"*.yaml"}
		}, expectOK: always(false)},
		// inputs on which the statement fixes no verdict: only the contract is judged
		{name: "yaml-duplicate-key", prepare: func(d string) []string {
			write(filepath.Join(d, "a.yaml"), "parameters:\n  a: 1\n  a: 2\nservices:\n  s: {value: X}\n  s: {value: Y}\n")
			return []string{"a.yaml"}
		}},
		{name: "yaml-unknown-fields", prepare: func(d string) []string {
			write(filepath.Join(d, "a.yaml"), "unknown_top: 1\nmeta:\n  nope: 2\nservices:\n  s: {value: X, colour: red, size: 3}\n")
			return []string{"a.yaml"}
		}},
		{name: "yaml-multi-document", prepare: func(d string) []string {
			write(filepath.Join(d, "a.yaml"), "parameters:\n  a: 1\n---\nparameters: [broken]\n---\nservices: 5\n")
			return []string{"a.yaml"}
		}},
		{name: "yaml-bad-anchors", prepare: func(d string) []string {
			write(filepath.Join(d, "a.yaml"), "parameters:\n  a: *nowhere\n  b: &x [*x]\n")
			return []string{"a.yaml"}
		}},
		{name: "valid-and-unparsable", prepare: func(d string) []string {
			write(filepath.Join(d, "a.yaml"), valid())
			write(filepath.Join(d, "b.yaml"), "\t- : :\n")
			return []string{"a.yaml", "b.yaml"}
		}, expectOK: always(false)},
		{name: "file-matched-by-two-patterns", prepare: func(d string) []string {
			write(filepath.Join(d, "a.yaml"), valid())
			return []string{"a.yaml", "*.yaml"}
		}, expectOK: always(false)},
		{name: "file-matched-by-two-spellings", prepare: func(d string) []string {
			write(filepath.Join(d, "cfg/a.yaml"), valid())
			return [][]string{{"cfg/a.yaml", "./cfg//a.yaml"}, {"cfg/a.yaml", "cfg/../cfg/a.yaml"}, {"./cfg/a.yaml", "cfg/a.yaml"}, {"cfg/./a.yaml", "cfg/*.yaml"}}[r.Intn(4)]
		}, expectOK: always(false)},
		{name: "empty-glob-only", prepare: func(d string) []string { return []string{"nothing-*.yaml"} }, expectOK: always(false)},
		{name: "invalid-glob", prepare: func(d string) []string { write(filepath.Join(d, "a.yaml"), valid()); return []string{"a.yaml", "[x"} }, expectOK: always(false)},
		{name: "grammar-error", prepare: func(d string) []string { write(filepath.Join(d, "a.yaml"), inject("grammar")); return []string{"a.yaml"} }, expectOK: always(false)},
		{name: "token-error", prepare: func(d string) []string { write(filepath.Join(d, "a.yaml"), inject("token")); return []string{"a.yaml"} }, expectOK: always(false)},
		{name: "service-cycle", prepare: func(d string) []string { write(filepath.Join(d, "a.yaml"), inject("cycle-svc")); return []string{"a.yaml"} }, expectOK: always(false)},
		{name: "param-cycle", prepare: func(d string) []string { write(filepath.Join(d, "a.yaml"), inject("cycle-param")); return []string{"a.yaml"} }, expectOK: always(false)},
		{name: "scope-conflict", prepare: func(d string) []string { write(filepath.Join(d, "a.yaml"), inject("scope")); return []string{"a.yaml"} }, expectOK: always(false)},
		{name: "missing-param", prepare: func(d string) []string { write(filepath.Join(d, "a.yaml"), inject("missing-param")); return []string{"a.yaml"} },
			expectOK: func(f []string) bool { return has(f, "--ignore-missing-params") }},
		{name: "missing-service", prepare: func(d string) []string { write(filepath.Join(d, "a.yaml"), inject("missing-service")); return []string{"a.yaml"} },
			expectOK: func(f []string) bool { return has(f, "--ignore-missing-services") }},
		{name: "same-dangling-reference-repeated", prepare: func(d string) []string {
			write(filepath.Join(d, "a.yaml"), "parameters:\n  p: \"%nope%-%nope%-%nope%\"\nservices:\n  s:\n    constructor: \"New\"\n    arguments: [\"@gone\", \"@gone\", \"%nope%\", \"%nope%\"]\n    calls: [[\"Set\", [\"@gone\", \"@gone\"]]]\n  t:\n    constructor: \"New\"\n    arguments: [\"@gone\", \"@gone\"]\n")
			return []string{"a.yaml"}
		}, expectOK: func(f []string) bool {
			return has(f, "--ignore-missing-params") && has(f, "--ignore-missing-services")
		}},
		{name: "formatting-error-keyword-package", prepare: func(d string) []string {
			write(filepath.Join(d, "a.yaml"), "meta:\n  pkg: \"func\"\nservices:\n  a: {value: \"X\"}\n")
			return []string{"a.yaml"}
		}, expectOK: always(false)},
		{name: "missing-output-directory", prepare: func(d string) []string { write(filepath.Join(d, "a.yaml"), valid()); return []string{"a.yaml"} }, outRel: "no/such/dir/out.go", expectOK: always(false)},
		{name: "output-is-directory", prepare: func(d string) []string { write(filepath.Join(d, "a.yaml"), valid()); return []string{"a.yaml"} }, outRel: "outdir",
			outPrep: func(d, out string) { _ = os.MkdirAll(out, 0o755); write(filepath.Join(out, "keep.txt"), "keep") }, expectOK: always(false)},
	}
	flagSets := [][]string{{}, {"--quiet"}, {"--stub"}, {"--ignore-missing-params"}, {"--ignore-missing-services"}, {"--ignore-missing-params", "--ignore-missing-services"}, {"--quiet", "--stub", "--ignore-missing-params"}, {"-q", "--ignore-missing-services"}}
	preStates := []string{"absent", "sentinel", "symlink-to-sentinel", "long-sentinel"}
	type job struct {
		cs    c10case
		flags []string
		pre   string
		rep   int
	}
	var jobs []job
	reps := c.Pick(1, 4)
	for _, cs := range cases {
		for _, fl := range flagSets {
			for _, pre := range preStates {
				if cs.outPrep != nil && pre != "absent" {
					continue
				}
				for k := 0; k < reps; k++ {
					jobs = append(jobs, job{cs, fl, pre, k})
				}
			}
		}
	}
	// case preparation draws from one generator stream: do it sequentially so that the case list is a function of the seed
	dirs := make([]string, len(jobs))
	patss := make([][]string, len(jobs))
	for i, j := range jobs {
		dirs[i] = w.TempDir("c10")
		patss[i] = j.cs.prepare(dirs[i])
	}
	Par(len(jobs), 16, func(i int) {
		j := jobs[i]
		dir, pats := dirs[i], patss[i]
		outRel := j.cs.outRel
		if outRel == "" {
			outRel = "out.go"
			if j.cs.outName != "" {
				outRel = j.cs.outName
			}
		}
		out := filepath.Join(dir, outRel)
		if j.cs.outPrep != nil {
			j.cs.outPrep(dir, out)
		}
		target := out
		switch j.pre {
		case "sentinel":
			if j.cs.outRel == "" {
				write(out, sentinel)
			}
		case "symlink-to-sentinel":
			if j.cs.outRel == "" {
				target = filepath.Join(dir, "real-target.go")
				write(target, sentinel)
				_ = os.Symlink(target, out)
			}
		case "long-sentinel": // longer than any generated file: a write without truncation would leave a tail
			if j.cs.outRel == "" {
				write(out, longSentinel)
			}
		}
		args := []string{"build"}
		for _, p := range pats {
			args = append(args, "-i", p)
		}
		args = append(args, "-o", outRel)
		args = append(args, j.flags...)
		tBefore := work.StatFile(target)
		run := cli.Do(w, "", nil, dir, out, args...)
		tAfter := work.StatFile(target)
		files := map[string]string{"args.txt": strings.Join(args, " "), "stdout.txt": run.Res.Stdout, "stderr.txt": run.Res.Stderr, "case.txt": fmt.Sprintf("%s flags=%v pre=%s", j.cs.name, j.flags, j.pre)}
		for _, p := range pats {
			if b, err := os.ReadFile(filepath.Join(dir, p)); err == nil {
				files["input/"+p] = string(b)
			}
		}
		key := fmt.Sprintf("%s|%v|%s|%d", j.cs.name, j.flags, j.pre, j.rep)
		c.Eval(key, j.cs.name != "valid" || j.pre != "absent")
		c.Add("runs", 1)
		sig := func(s string) string { return j.cs.name + ":" + s }
		for _, b := range run.Contract() {
			c.Violate(sig("contract:"+sigWords(b)), fmt.Sprintf("%s flags=%v pre=%s: %s", j.cs.name, j.flags, j.pre, b), files)
		}
		wantOK := run.Res.Exit == 0
		if j.cs.expectOK != nil {
			wantOK = j.cs.expectOK(j.flags)
		}
		if wantOK && run.Res.Exit != 0 {
			c.Violate(sig("unexpected-failure"), fmt.Sprintf("%s flags=%v: expected success, exit %d\n%s", j.cs.name, j.flags, run.Res.Exit, run.Res.Stdout), files)
		}
		if !wantOK && run.Res.Exit == 0 {
			c.Violate(sig("failure-with-exit-0"), fmt.Sprintf("%s flags=%v: a failing run exited 0\n%s", j.cs.name, j.flags, run.Res.Stdout), files)
		}
		if run.Res.Exit != 0 {
			c.Add("failing_runs", 1)
			if tBefore != tAfter {
				c.Violate(sig("failure-changed-output-target"), fmt.Sprintf("%s flags=%v pre=%s: target of -o changed: before=%+v after=%+v", j.cs.name, j.flags, j.pre, tBefore, tAfter), files)
			}
			if j.cs.outPrep != nil {
				if b, _ := os.ReadFile(filepath.Join(out, "keep.txt")); string(b) != "keep" {
					c.Violate(sig("output-directory-damaged"), "content of the directory given as -o changed", files)
				}
			}
		} else {
			c.Add("successful_runs", 1)
			// complete = byte-identical to a clean run of the same inputs into a fresh directory
			fresh := filepath.Join(w.TempDir("c10f"), "fresh.go")
			args2 := append([]string{}, args...)
			for k := range args2 {
				if args2[k] == "-o" {
					args2[k+1] = fresh
				}
			}
			if j.cs.name == "empty-glob-then-valid" || j.cs.name == "valid-input-is-symlink" {
				// reference: the same content read through one plain pattern
				if b, err := os.ReadFile(filepath.Join(dir, "a.yaml")); err == nil {
					_ = work.WriteFile(filepath.Join(dir, "plain-copy.yaml"), b)
					var a3 []string
					skip := false
					for _, a := range args2 {
						if skip {
							skip = false
							continue
						}
						if a == "-i" {
							skip = true
							continue
						}
						a3 = append(a3, a)
					}
					args2 = append([]string{a3[0], "-i", "plain-copy.yaml"}, a3[1:]...)
				}
			}
			run2 := cli.Do(w, "", nil, dir, fresh, args2...)
			got, _ := os.ReadFile(out)
			want, _ := os.ReadFile(fresh)
			if run2.Res.Exit != 0 || string(got) != string(want) || len(got) == 0 {
				c.Violate(sig("output-not-complete"), fmt.Sprintf("%s flags=%v pre=%s: file at -o (%d bytes) differs from a clean run into a fresh directory (%d bytes, exit %d)", j.cs.name, j.flags, j.pre, len(got), len(want), run2.Res.Exit), files)
			}
			if strings.Contains(string(got), "sentinel") {
				c.Violate(sig("stale-content-left"), "the sentinel content is still in the output", files)
			}
		}
		// --quiet: same exit and file effect as the loud twin, nothing printed (Contract checks the printing)
		if has(j.flags, "--quiet") || has(j.flags, "-q") {
			var loud []string
			for _, a := range args {
				if a != "--quiet" && a != "-q" {
					loud = append(loud, a)
				}
			}
			d2 := w.TempDir("c10q")
			_ = exec.Command("cp", "-a", dir+"/.", d2+"/").Run()
			// restore the pre-state of the copy
			out2 := filepath.Join(d2, outRel)
			switch j.pre {
			case "absent":
				if j.cs.outPrep == nil {
					_ = os.Remove(out2)
				}
			case "sentinel":
				if j.cs.outRel == "" {
					write(out2, sentinel)
				}
			case "long-sentinel":
				if j.cs.outRel == "" {
					write(out2, longSentinel)
				}
			case "symlink-to-sentinel":
				if j.cs.outRel == "" {
					_ = os.Remove(out2)
					write(filepath.Join(d2, "real-target.go"), sentinel)
					_ = os.Symlink(filepath.Join(d2, "real-target.go"), out2)
				}
			}
			runL := cli.Do(w, "", nil, d2, out2, loud...)
			if runL.Res.Exit != run.Res.Exit {
				c.Violate(sig("quiet-changes-exit-status"), fmt.Sprintf("%s: exit %d with --quiet, %d without", j.cs.name, run.Res.Exit, runL.Res.Exit), files)
			}
			a, b := followState(out), followState(out2)
			if a != b {
				c.Violate(sig("quiet-changes-file-effect"), fmt.Sprintf("%s: -o after --quiet %+v vs without %+v", j.cs.name, a, b), files)
			}
			c.Add("quiet_twins_compared", 1)
		}
		// the same invocation spelled differently (--input=x, -ix, flags before the inputs, --stub=true, -q=true) is the same invocation
		if i%3 == 0 && j.cs.outPrep == nil {
			var alt []string
			alt = append(alt, "build")
			for _, f := range j.flags {
				switch f {
				case "--stub":
					alt = append(alt, "--stub=true")
				case "--quiet":
					alt = append(alt, "-q=true")
				case "-q":
					alt = append(alt, "--quiet")
				default:
					alt = append(alt, f+"=true")
				}
			}
			alt = append(alt, "--output="+outRel)
			for k, p := range pats {
				switch k % 3 {
				case 0:
					alt = append(alt, "--input="+p)
				case 1:
					alt = append(alt, "-i"+p)
				default:
					alt = append(alt, "--input", p)
				}
			}
			d3 := w.TempDir("c10a")
			_ = exec.Command("cp", "-a", dir+"/.", d3+"/").Run()
			out3 := filepath.Join(d3, outRel)
			switch j.pre {
			case "absent":
				_ = os.Remove(out3)
			case "sentinel":
				if j.cs.outRel == "" {
					write(out3, sentinel)
				}
			case "long-sentinel":
				if j.cs.outRel == "" {
					write(out3, longSentinel)
				}
			case "symlink-to-sentinel":
				if j.cs.outRel == "" {
					_ = os.Remove(out3)
					write(filepath.Join(d3, "real-target.go"), sentinel)
					_ = os.Symlink(filepath.Join(d3, "real-target.go"), out3)
				}
			}
			runA := cli.Do(w, "", nil, d3, out3, alt...)
			c.Add("flag_spelling_twins_compared", 1)
			if runA.Res.Exit != run.Res.Exit || runA.Res.Stdout != run.Res.Stdout || followState(out3) != followState(out) {
				files["alt-args.txt"] = strings.Join(alt, " ")
				files["alt-stdout.txt"] = runA.Res.Stdout
				c.Violate(sig("flag-spelling-changes-behaviour"), fmt.Sprintf("%s: `%s` (exit %d) and `%s` (exit %d) differ in exit status, report or file effect\n%s", j.cs.name, strings.Join(args, " "), run.Res.Exit, strings.Join(alt, " "), runA.Res.Exit, firstDiff(run.Res.Stdout, runA.Res.Stdout)), files)
			}
		}
		if i%97 == 0 {
			c.Sample(map[string]any{"case": j.cs.name, "flags": j.flags, "pre_state": j.pre, "exit": run.Res.Exit, "list": run.Rep.List, "out_before": run.Before, "out_after": run.After})
		}
	})
	c.Set("fault_classes", len(cases))
	c.Set("flag_sets", len(flagSets))
	c10Stdout(c)
	c10Procfs(c)
	return c10Strace(c)
}

// c10Stdout: the report cannot be printed (standard output on /dev/full: every write fails with ENOSPC; a descriptor opened
// read-only). The statement does not list this failure and the tool cannot print its error list, so only the two implications that
// do not need a report are judged: status 0 iff the complete source is at -o, and a failing run leaves -o exactly as it was. (The
// unchanged tool panics in its printer and exits 2 before any step runs - noted in DESIGN, not judged.)
func c10Stdout(c *Ctx) {
	w := c.W
	valid := "meta:\n  pkg: gen\nparameters:\n  a: 1\nservices:\n  s:\n    value: \"Global\"\n"
	bad := "parameters:\n  a: \"%b%\"\n  b: \"%a%\"\n"
	k := 0
	for _, stdout := range []string{"/dev/full", "read-only"} {
		for yi, y := range []string{valid, bad} {
			for _, flags := range [][]string{{}, {"--quiet"}, {"--stub"}, {"--ignore-missing-params"}} {
				for _, pre := range []string{"absent", "sentinel"} {
					k++
					dir := w.TempDir("c10s")
					_ = work.WriteFile(filepath.Join(dir, "a.yaml"), []byte(y))
					out := filepath.Join(dir, "out.go")
					if pre == "sentinel" {
						_ = work.WriteFile(out, []byte("package sentinel\n"))
					}
					sp := stdout
					if sp == "read-only" {
						sp = filepath.Join(dir, "stdout-read-only")
						_ = work.WriteFile(sp, nil)
					}
					args := append([]string{"build", "-i", "a.yaml", "-o", "out.go"}, flags...)
					var run cli.Run
					if stdout == "read-only" {
						run = cli.DoStdoutMode(w, "", nil, dir, out, sp, os.O_RDONLY, args...)
					} else {
						run = cli.DoStdoutMode(w, "", nil, dir, out, sp, os.O_WRONLY, args...)
					}
					c.Add("runs_with_unwritable_stdout", 1)
					c.Eval(fmt.Sprintf("stdout|%s|%d|%v|%s", stdout, yi, flags, pre), true)
					files := map[string]string{"input/a.yaml": y, "args.txt": strings.Join(args, " "), "stdout-is.txt": stdout, "stderr.txt": run.Res.Stderr}
					sig := "stdout-unwritable:"
					if run.Res.TimedOut {
						c.Violate(sig+"hang", "the run did not end", files)
						continue
					}
					// reference: the same run with a normal stdout in a twin directory
					d2 := w.TempDir("c10s")
					_ = work.WriteFile(filepath.Join(d2, "a.yaml"), []byte(y))
					ref := cli.Do(w, "", nil, d2, filepath.Join(d2, "out.go"), args...)
					want, _ := os.ReadFile(filepath.Join(d2, "out.go"))
					got, _ := os.ReadFile(out)
					if run.Res.Exit == 0 {
						if ref.Res.Exit != 0 || string(got) != string(want) || len(got) == 0 {
							c.Violate(sig+"exit-0-without-the-complete-output", fmt.Sprintf("flags %v, stdout %s: exit 0 but -o does not hold what a normal run writes (normal run: exit %d)", flags, stdout, ref.Res.Exit), files)
						}
					} else if run.Before != run.After {
						c.Violate(sig+"failure-changed-output", fmt.Sprintf("flags %v, stdout %s, -o %s before: exit %d, but the -o path changed: before=%+v after=%+v", flags, stdout, pre, run.Res.Exit, run.Before, run.After), files)
					}
				}
			}
		}
	}
}

// c10Procfs: inputs whose stat size is not their length (procfs files report size 0). The bytes are what they are: the run over
// the procfs path must end like the run over a regular file holding the same bytes, and a failing one must not create `-o`
// (round 13, S253).
func c10Procfs(c *Ctx) {
	w := c.W
	for _, pf := range []string{"/proc/version", "/proc/filesystems", "/proc/cmdline", "/proc/sys/kernel/ostype"} {
		data, err := os.ReadFile(pf)
		st, err2 := os.Stat(pf)
		if err != nil || err2 != nil || len(data) == 0 || st.Size() != 0 {
			continue
		}
		for _, flags := range [][]string{{}, {"--quiet"}, {"--stub"}} {
			dir := w.TempDir("c10p")
			_ = work.WriteFile(filepath.Join(dir, "copy.yaml"), data)
			out1, out2 := filepath.Join(dir, "out1.go"), filepath.Join(dir, "out2.go")
			a1 := append([]string{"build", "-i", "copy.yaml", "-o", "out1.go"}, flags...)
			a2 := append([]string{"build", "-i", pf, "-o", "out2.go"}, flags...)
			ref := cli.Do(w, "", nil, dir, out1, a1...)
			run := cli.Do(w, "", nil, dir, out2, a2...)
			c.Add("runs_over_procfs_inputs", 1)
			c.Eval(fmt.Sprintf("procfs|%s|%v", pf, flags), true)
			files := map[string]string{"input/copy.yaml": string(data), "args.txt": strings.Join(a2, " "), "stdout.txt": run.Res.Stdout, "stdout-regular-copy.txt": ref.Res.Stdout}
			if (ref.Res.Exit == 0) != (run.Res.Exit == 0) {
				c.Violate("size-0-input:verdict-differs-from-regular-copy", fmt.Sprintf("%s %v: exit %d, over a regular file with the same %d bytes: exit %d", pf, flags, run.Res.Exit, len(data), ref.Res.Exit), files)
				continue
			}
			if run.Res.Exit != 0 && run.Before != run.After {
				c.Violate("size-0-input:failure-changed-output", fmt.Sprintf("%s %v: exit %d but the -o path changed", pf, flags, run.Res.Exit), files)
			}
			for _, b := range run.Contract() {
				c.Violate("size-0-input:"+sigWords(b), fmt.Sprintf("%s %v: %s", pf, flags, b), files)
			}
		}
	}
}

// c10Strace enumerates system-call faults with strace (driver D4).
func c10Strace(c *Ctx) error {
	w := c.W
	// the injector must work here (ptrace may be denied in some sandboxes): probe it on /bin/true first
	probe := work.Run("strace", w.Dir, []string{"PATH=/usr/bin:/bin"}, 30*time.Second, nil, "-f", "-qq", "-o", "/dev/null", "-e", "trace=write", "/bin/true")
	if probe.Exit != 0 {
		c.Set("strace_injection", "unavailable: "+firstLines(probe.Stderr, 2))
		if c.Thorough() {
			c.Inconclusive("strace cannot trace processes here: " + firstLines(probe.Stderr, 2))
		}
		return nil
	}
	c.Set("strace_injection", "available")
	r := rand.New(rand.NewSource(c.Seed + 99))
	type inj struct {
		what    string // input|output
		syscall string
		errno   string
		when    int
		pre     string
	}
	var injs []inj
	for _, e := range []string{"EACCES", "EMFILE", "EIO"} {
		for n := 1; n <= 2; n++ {
			injs = append(injs, inj{"input", "openat", e, n, "sentinel"})
		}
	}
	for _, e := range []string{"EIO", "EINTR"} {
		for n := 1; n <= 3; n++ {
			injs = append(injs, inj{"input", "read", e, n, "sentinel"})
		}
	}
	for _, pre := range []string{"absent", "sentinel"} {
		for _, e := range []string{"EACCES", "EROFS", "ENOSPC", "EMFILE"} {
			injs = append(injs, inj{"output", "openat", e, 1, pre})
		}
		for _, e := range []string{"ENOSPC", "EIO"} {
			for n := 1; n <= 2; n++ {
				injs = append(injs, inj{"output", "write", e, n, pre})
			}
		}
	}
	confs := c.Pick(1, 4)
	for ci := 0; ci < confs; ci++ {
		yaml := validConfig(r).YAML()
		for _, in := range injs {
			dir := w.TempDir("c10s")
			_ = work.WriteFile(filepath.Join(dir, "a.yaml"), []byte(yaml))
			out := filepath.Join(dir, "out.go")
			if in.pre == "sentinel" {
				_ = work.WriteFile(out, []byte(sentinel))
			}
			// the path is selected the way the tool names it (relative to its working directory) and by its absolute name
			rel := "a.yaml"
			if in.what == "output" {
				rel = "out.go"
			}
			path := filepath.Join(dir, rel)
			before := work.StatFile(out)
			args := []string{"-f", "-qq", "-o", "/dev/null", "-P", rel, "-P", path, "-e", "trace=" + in.syscall, "-e", fmt.Sprintf("inject=%s:error=%s:when=%d", in.syscall, in.errno, in.when),
				w.Bin, "build", "-i", "a.yaml", "-o", "out.go"}
			res := work.Run("strace", dir, append(w.SaneEnv(), "PATH=/usr/bin:/bin"), 60*time.Second, nil, args...)
			after := work.StatFile(out)
			rep := cli.Parse(res.Stdout)
			key := fmt.Sprintf("strace|%d|%+v", ci, in)
			c.Eval(key, true)
			c.Add("syscall_faults_injected", 1)
			files := map[string]string{"input/a.yaml": yaml, "stdout.txt": res.Stdout, "stderr.txt": res.Stderr, "injection.txt": fmt.Sprintf("%+v", in)}
			if res.Exit != 0 && res.Exit != 1 {
				c.Violate(fmt.Sprintf("strace:%s-%s:exit-status", in.what, in.syscall), fmt.Sprintf("%+v: exit %d\n%s", in, res.Exit, res.Stderr), files)
				continue
			}
			if res.Exit == 0 {
				// the fault did not hit (when=N beyond the number of calls) or was survived; the output must then be complete
				if !after.Exists || after.Size == 0 || strings.Contains(readFile(out), "sentinel") {
					c.Violate(fmt.Sprintf("strace:%s-%s:exit-0-without-complete-output", in.what, in.syscall), fmt.Sprintf("%+v: exit 0, -o: %+v", in, after), files)
				}
				c.Add("faults_not_hit_or_survived", 1)
				continue
			}
			c.Add("faults_hit:"+in.what+"-"+in.syscall, 1)
			if top := rep.FailingTop(); top == nil || len(rep.List) != top.Count {
				c.Violate(fmt.Sprintf("strace:%s-%s:report", in.what, in.syscall), fmt.Sprintf("%+v: failing run without a consistent report\n%s", in, res.Stdout), files)
			}
			if before != after {
				if in.what == "output" && in.syscall == "write" {
					c.Violate("write-fault-after-open-truncates", fmt.Sprintf("%+v: write on -o failed after the file had been opened with O_TRUNC: before=%+v after=%+v", in, before, after), files)
				} else {
					c.Violate(fmt.Sprintf("strace:%s-%s:failure-changed-output", in.what, in.syscall), fmt.Sprintf("%+v: before=%+v after=%+v", in, before, after), files)
				}
			}
		}
	}
	// an injector that never hits decides nothing: every class of fault has to have made at least one run fail
	for _, cls := range []string{"input-openat", "input-read", "output-openat", "output-write"} {
		if c.Get("faults_hit:"+cls) == 0 {
			c.Inconclusive("system-call fault injection never hit for " + cls + " (the tool no longer touches the file through that call, or the path selection does not match)")
		}
	}
	return nil
}

func readFile(p string) string {
	b, _ := os.ReadFile(p)
	return string(b)
}

// followState describes what a path resolves to (following symlinks): kind and content hash.
func followState(p string) string {
	st, err := os.Stat(p)
	if err != nil {
		return "absent"
	}
	if st.IsDir() {
		return "dir"
	}
	b, err := os.ReadFile(p)
	if err != nil {
		return "unreadable"
	}
	return "file:" + work.Sha(b)
}
