package mon

import (
	"fmt"
	"hash/adler32"
	"hash/crc32"
	"hash/fnv"
	"math/rand"
	"os"
	"sync"

	"path/filepath"
	"strings"
	"verif/cfg"

	"verif/cli"
	"verif/gen"
	"verif/work"
)

func init() { Register("C16", "exploration", checkC16) }

func checkC16(c *Ctx) error {
	c.Rule = "seeded configurations carrying 0-5 (every seventh: 10-24, mostly of one step) injected defects drawn from {missing parameter, missing service, service cycle, parameter cycle, scope conflict, grammar error, token error} (several of one class allowed), each run with the four combinations of --ignore-missing-params / --ignore-missing-services; filter law: the ordered diagnostics under flags F equal the diagnostics without flags minus those of the ignored steps (steps identified by the report structure), exit 0 iff nothing remains, ignored steps are marked `ignored`, and a configuration accepted without flags yields byte-identical output under every combination; other spellings of the same flag values (=false, =true, =0/1/t/f, repeated flags) act like the plain ones. distinct = distinct configuration; non-trivial = at least one defect of an ignorable class and one of another class, or accepted without flags"
	c.Assumptions = []string{"report structure (step END lines with counts) identifies which step a diagnostic belongs to"}
	w := c.W
	n := c.Pick(700, 10000)
	combos := [][]string{{}, {"--ignore-missing-params"}, {"--ignore-missing-services"}, {"--ignore-missing-params", "--ignore-missing-services"}}
	type cse struct {
		yaml  string
		kinds []string
		conf  *cfg.Config
	}
	cases := make([]cse, n)
	for i := range cases {
		r := rand.New(rand.NewSource(c.Seed*65537 + int64(i)))
		conf := gen.Behaviour(r, gen.DefaultOpts())
		k := r.Intn(6)
		if i%5 == 0 {
			k = 0
		}
		var kinds []string
		many := i%7 == 3
		if many {
			// many diagnostics of one step (10-24) next to a few of the steps before and after it: the count of one step's
			// diagnostics must not decide whether another step runs
			k = 10 + r.Intn(15)
		}
		for j := 0; j < k; j++ {
			kind := gen.DefectKinds[r.Intn(len(gen.DefectKinds))]
			if r.Intn(2) == 0 {
				kind = []string{"missing-param", "missing-service", "missing-mixed"}[r.Intn(3)]
			}
			if many {
				kind = []string{"missing-param", "missing-service", "scope", "cycle-svc"}[(i/7)%4]
				if j >= k-3 {
					kind = []string{"missing-service", "missing-param", "missing-mixed", "scope", "cycle-param"}[r.Intn(5)]
				}
			}
			gen.Inject(r, conf, kind, j)
			kinds = append(kinds, kind)
		}
		if i%13 == 8 && !many && len(hashTwins()) > 0 {
			// a dangling name that collides with a declared one under a common 32-bit hash (FNV-1a, FNV-1, CRC-32, Adler-32,
			// Java's 31-hash, djb2): a name is declared only if that very name is declared (round 13, S255)
			tw := hashTwins()
			p := tw[(i/13)%len(tw)]
			conf.Params = append(conf.Params, cfg.KV{K: p[0], V: cfg.Int(1)}, cfg.KV{K: "usesTwinOf" + p[0], V: cfg.Str("<%" + p[1] + "%>")})
			conf.Services = append(conf.Services, cfg.Service{Name: p[0], Constructor: cfg.P(`"fixt/pa".New`)},
				cfg.Service{Name: "holdsTwinOf" + p[0], Constructor: cfg.P(`"fixt/pa".New`), Args: []cfg.Val{cfg.Str("@" + p[1])}})
			kinds = append(kinds, "missing-param", "missing-service")
			c.Add("configurations_with_hash_twins", 1)
		}
		if i%11 == 6 && !many {
			// a configuration without any service (parameters and decorators only, e.g. one file of a larger setup validated on its
			// own): the arguments of its decorators are references like any other
			conf.Services = nil
			conf.Decorators = append(conf.Decorators, cfg.Decorator{Tag: "orphanTag", Decorator: `"fixt/pa".DecSame`, Args: []cfg.Val{cfg.Int(1), cfg.Str("@goneService")}})
			pure := true
			for _, k := range kinds {
				pure = pure && (k == "missing-param" || k == "missing-service" || k == "missing-mixed")
			}
			if pure {
				kinds = append(kinds, "missing-service")
			} else {
				kinds = append(kinds, "other")
			}
			c.Add("configurations_without_any_service", 1)
		}
		cases[i] = cse{conf.YAML(), kinds, conf}
	}
	Par(n+n/3, 16, func(i int) {
		// the last third repeats the first third with --stub added to every run: what the ignore flags do does not depend on it
		var mode []string
		if i >= n {
			i = (i - n) * 3
			mode = []string{"--stub"}
			c.Add("cases_repeated_with_--stub", 1)
		}
		cs := cases[i]
		dir := w.TempDir("c16")
		_ = work.WriteFile(filepath.Join(dir, "in.yaml"), []byte(cs.yaml))
		runs := make([]cli.Run, len(combos))
		outs := make([]string, len(combos))
		for k, fl := range combos {
			out := filepath.Join(dir, fmt.Sprintf("out%d.go", k))
			args := append(append([]string{"build", "-i", "in.yaml", "-o", out}, fl...), mode...)
			runs[k] = cli.Do(w, "", nil, dir, out, args...)
			if b, err := os.ReadFile(out); err == nil {
				outs[k] = string(b)
			}
		}
		files := map[string]string{"input/in.yaml": cs.yaml, "injected.txt": strings.Join(cs.kinds, ","), "stdout-noflags.txt": runs[0].Res.Stdout, "mode.txt": strings.Join(mode, " ")}
		ignorable, other := false, false
		for _, k := range cs.kinds {
			if strings.HasPrefix(k, "missing-") {
				ignorable = true
			} else {
				other = true
			}
		}
		c.Eval(cs.yaml+strings.Join(mode, ""), (ignorable && other) || runs[0].Res.Exit == 0)
		for k := range combos {
			for _, b := range runs[k].Contract() {
				c.Side("C10,C12", "cli-contract:"+sigWords(b), fmt.Sprintf("flags %v: %s\n%s", combos[k], b, runs[k].Res.Stdout), files)
			}
		}
		// absolute oracles (a violation that is never reported would satisfy the relational law): every run that reaches
		// output validation must report exactly the scope conflicts, cycles and dangling references of the reference model
		for k := range combos {
			if runs[k].Rep.Section("Validate output") == nil {
				continue
			}
			judgeScopeVerdictOpt(c, cs.conf, &runs[k], files, false)
			judgeCyclesOpt(c, cs.conf, &runs[k], files, false)
			if k == 0 {
				judgeDangling(c, cs.conf, &runs[k], files, true)
			}
			c.Add("runs_checked_against_reference_sets", 1)
		}
		// absolute: a configuration whose only defects are injected references to undeclared parameters / services is accepted
		// as soon as the flags cover those classes - in whatever step the tool notices the reference
		if len(cs.kinds) > 0 {
			needP, needS, other := false, false, false
			for _, k := range cs.kinds {
				switch k {
				case "missing-param":
					needP = true
				case "missing-service":
					needS = true
				case "missing-mixed":
					needP, needS = true, true
				default:
					other = true
				}
			}
			if !other {
				for k, fl := range combos {
					covered := (!needP || has(fl, "--ignore-missing-params")) && (!needS || has(fl, "--ignore-missing-services"))
					if covered && runs[k].Res.Exit != 0 {
						files["stdout-covered.txt"] = runs[k].Res.Stdout
						c.Violate("only-ignored-classes-but-rejected:"+strings.Join(fl, "+"), fmt.Sprintf("flags %v: every defect of this configuration is a reference to an undeclared parameter/service of an ignored class (%v), yet it is rejected: %s", fl, cs.kinds, rejectReason2(runs[k])), files)
					}
				}
			}
		}
		base := runs[0].Rep
		params := base.ErrorsOf("Missing parameters")
		svcs := base.ErrorsOf("Missing services")
		isIn := func(list []string, e string) bool {
			for _, x := range list {
				if x == e {
					return true
				}
			}
			return false
		}
		for k, fl := range combos {
			if k == 0 {
				continue
			}
			ignP, ignS := has(fl, "--ignore-missing-params"), has(fl, "--ignore-missing-services")
			var want []string
			for _, e := range base.List {
				if ignP && isIn(params, e) || ignS && isIn(svcs, e) {
					continue
				}
				want = append(want, e)
			}
			got := runs[k].Rep.List
			files[fmt.Sprintf("stdout-flags%d.txt", k)] = runs[k].Res.Stdout
			if strings.Join(got, "\n") != strings.Join(want, "\n") {
				c.Violate(fmt.Sprintf("filter-law:%s", strings.Join(fl, "+")), fmt.Sprintf("flags %v: diagnostics are not the unflagged ones minus the ignored classes\nwithout flags: %q\nexpected: %q\nobserved: %q", fl, base.List, want, got), files)
			}
			if (len(want) == 0) != (runs[k].Res.Exit == 0) {
				c.Violate(fmt.Sprintf("acceptance:%s", strings.Join(fl, "+")), fmt.Sprintf("flags %v: %d violations remain but exit status is %d", fl, len(want), runs[k].Res.Exit), files)
			}
			// ignored steps are shown as ignored, the others are not
			for name, ign := range map[string]bool{"Missing parameters": ignP, "Missing services": ignS} {
				if sec := runs[k].Rep.Section(name); sec != nil {
					if ign != (sec.Status == "ignored") {
						c.Add("steps_with_unexpected_ignored_mark(not part of the statement)", 1)
					}
				}
			}
			if runs[0].Res.Exit == 0 && outs[k] != outs[0] {
				c.Violate("output-differs-under-flags", fmt.Sprintf("flags %v: configuration accepted without flags yields different output", fl), files)
			}
			c.Add("flagged_runs_compared", 1)
		}
		// --quiet must not change what the flags do: same exit status and same file for every combination
		for k, fl := range combos {
			if (i+k)%2 != 0 {
				continue
			}
			out := filepath.Join(dir, fmt.Sprintf("quiet%d.go", k))
			args := append(append([]string{"build", "-i", "in.yaml", "-o", out, "--quiet"}, fl...), mode...)
			q := cli.Do(w, "", nil, dir, out, args...)
			b, _ := os.ReadFile(out)
			c.Add("quiet_twins_compared", 1)
			if q.Res.Exit != runs[k].Res.Exit || string(b) != outs[k] {
				c.Violate("quiet-changes-flag-effect:"+strings.Join(fl, "+"), fmt.Sprintf("flags %v: exit %d without --quiet, %d with it; output equal: %v", fl, runs[k].Res.Exit, q.Res.Exit, string(b) == outs[k]), files)
			}
			for _, br := range q.Contract() {
				c.Side("C10,C12", "cli-contract:"+sigWords(br), fmt.Sprintf("flags %v --quiet: %s", fl, br), files)
			}
		}
		// other spellings of the same flag values: an explicit `=false` is "not given", `=true`/`=1`/`=t` is "given", the last
		// occurrence of a repeated flag decides
		spell := []struct {
			args  []string
			equal int // index into combos
		}{
			{[]string{"--ignore-missing-params=false"}, 0},
			{[]string{"--ignore-missing-services=false"}, 0},
			{[]string{"--ignore-missing-params=0", "--ignore-missing-services=f"}, 0},
			{[]string{"--ignore-missing-params=true"}, 1},
			{[]string{"--ignore-missing-params=1", "--ignore-missing-services=false"}, 1},
			{[]string{"--ignore-missing-services=t"}, 2},
			{[]string{"--ignore-missing-services", "--ignore-missing-params=false"}, 2},
			{[]string{"--ignore-missing-params", "--ignore-missing-params=false"}, 0},
			{[]string{"--ignore-missing-services=false", "--ignore-missing-services"}, 2},
			{[]string{"--ignore-missing-params=TRUE", "--ignore-missing-services=True"}, 3},
			{[]string{"--stub=false", "--quiet=false", "--ignore-missing-params"}, 1},
		}
		for k := 0; k < 3; k++ {
			sp := spell[(i*3+k)%len(spell)]
			out := filepath.Join(dir, fmt.Sprintf("spell%d.go", k))
			args := append(append([]string{"build", "-i", "in.yaml", "-o", out}, sp.args...), mode...)
			q := cli.Do(w, "", nil, dir, out, args...)
			b, _ := os.ReadFile(out)
			c.Add("flag_spellings_compared", 1)
			if q.Res.Exit != runs[sp.equal].Res.Exit || string(b) != outs[sp.equal] || strings.Join(q.Rep.List, "\n") != strings.Join(runs[sp.equal].Rep.List, "\n") {
				files["stdout-spelling.txt"] = q.Res.Stdout
				c.Violate("flag-spelling-changes-effect:"+strings.Join(sp.args, "+"), fmt.Sprintf("flags %v must act like %v: exit %d vs %d, output equal %v\nspelled: %q\nplain:   %q", sp.args, combos[sp.equal], q.Res.Exit, runs[sp.equal].Res.Exit, string(b) == outs[sp.equal], q.Rep.List, runs[sp.equal].Rep.List), files)
			}
		}
		// the way the flags are used in practice: one output path, first generated with both flags, then with fewer and fewer. What a
		// flag set does must not depend on what an earlier run left at the path: same verdict and diagnostics as on a fresh path, the
		// same file when accepted, the earlier file untouched when rejected
		if i%3 == 1 {
			seq := filepath.Join(dir, "seq.go")
			for _, k := range []int{3, 1, 2, 0, 3} {
				args := append(append([]string{"build", "-i", "in.yaml", "-o", seq}, combos[k]...), mode...)
				before, _ := os.ReadFile(seq)
				q := cli.Do(w, "", nil, dir, seq, args...)
				after, _ := os.ReadFile(seq)
				c.Add("runs_in_flag_sequences_over_one_output_path", 1)
				want := outs[k]
				if runs[k].Res.Exit != 0 {
					want = string(before)
				}
				if q.Res.Exit != runs[k].Res.Exit || strings.Join(q.Rep.List, "\n") != strings.Join(runs[k].Rep.List, "\n") || string(after) != want {
					files["stdout-sequence.txt"] = q.Res.Stdout
					c.Violate("flag-effect-depends-on-earlier-output:"+strings.Join(combos[k], "+"), fmt.Sprintf("flags %v over the output of an earlier run: exit %d (fresh path: %d), diagnostics equal %v, file as expected %v\nsequence: %q\nfresh:    %q", combos[k], q.Res.Exit, runs[k].Res.Exit,
						strings.Join(q.Rep.List, "\n") == strings.Join(runs[k].Rep.List, "\n"), string(after) == want, q.Rep.List, runs[k].Rep.List), files)
				}
			}
		}
		if runs[0].Res.Exit == 0 {
			c.Add("accepted_without_flags", 1)
		} else if runs[3].Res.Exit == 0 {
			c.Add("accepted_only_with_flags", 1)
		} else {
			c.Add("rejected_under_all_flags", 1)
		}
		if i == 3 || i == 4 {
			c.Sample(map[string]any{"injected": cs.kinds, "diagnostics_without_flags": base.List, "with_both_flags": runs[3].Rep.List, "exits": []int{runs[0].Res.Exit, runs[1].Res.Exit, runs[2].Res.Exit, runs[3].Res.Exit}})
		}
	})
	return nil
}

var hashTwinsOnce sync.Once
var hashTwinsVal [][2]string

// hashTwins: for each of six common 32-bit string hashes, two different plausible names with the same hash value.
func hashTwins() [][2]string {
	hashTwinsOnce.Do(func() {
		fns := []func(string) uint32{
			func(s string) uint32 { h := fnv.New32a(); h.Write([]byte(s)); return h.Sum32() },
			func(s string) uint32 { h := fnv.New32(); h.Write([]byte(s)); return h.Sum32() },
			func(s string) uint32 { return crc32.ChecksumIEEE([]byte(s)) },
			func(s string) uint32 { return adler32.Checksum([]byte(s)) },
			func(s string) uint32 {
				var h uint32
				for i := 0; i < len(s); i++ {
					h = 31*h + uint32(s[i])
				}
				return h
			},
			func(s string) uint32 {
				h := uint32(5381)
				for i := 0; i < len(s); i++ {
					h = h*33 + uint32(s[i])
				}
				return h
			},
		}
		prefixes := []string{"repoPool", "storageService", "mailer", "db.conn", "cache-node"}
		for _, f := range fns {
			seen := map[uint32]string{}
			found := false
			for k := 0; k < 400000 && !found; k++ {
				n := fmt.Sprintf("%s%d", prefixes[k%len(prefixes)], k/len(prefixes))
				h := f(n)
				if o, ok := seen[h]; ok && o != n {
					hashTwinsVal = append(hashTwinsVal, [2]string{o, n})
					found = true
				}
				seen[h] = n
			}
		}
	})
	return hashTwinsVal
}
