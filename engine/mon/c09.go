package mon

import (
	"fmt"
	"math/rand"
	"os"
	"path/filepath"
	"sort"
	"strings"

	"gopkg.in/yaml.v3"

	"verif/cfg"
	"verif/cli"
	"verif/gen"
	"verif/ref"
	"verif/work"
	"verif/ysugar"
)

func init() { Register("C09", "exploration", checkC09) }

// normalize sorts mapping-like lists by key so that two configurations can be compared as mappings.
func normalize(c cfg.Config) string {
	n := c.Clone()
	sort.SliceStable(n.Params, func(i, j int) bool { return n.Params[i].K < n.Params[j].K })
	sort.SliceStable(n.Meta.Imports, func(i, j int) bool { return n.Meta.Imports[i].K < n.Meta.Imports[j].K })
	sort.SliceStable(n.Meta.Functions, func(i, j int) bool { return n.Meta.Functions[i].K < n.Meta.Functions[j].K })
	sort.SliceStable(n.Services, func(i, j int) bool { return n.Services[i].Name < n.Services[j].Name })
	for i := range n.Services {
		f := n.Services[i].Fields
		sort.SliceStable(f, func(a, b int) bool { return f[a].K < f[b].K })
		if len(n.Services[i].Args) == 0 {
			n.Services[i].Args = nil
		}
	}
	return n.YAML()
}

type c09layout struct {
	files    []string // file paths, in the order they are expected to be merged
	patterns []string
}

// layouts: ways of naming files and patterns for k fragments; files are listed in expected merge order
// (patterns in argv order; inside one pattern: lexical order of the cleaned paths).
func c09Layout(r *rand.Rand, k int) c09layout {
	switch r.Intn(4) {
	case 0: // one explicit pattern per file, names in an order unrelated to the merge order
		// file names are arbitrary text as far as the tool is concerned: commas, blanks, semicolons, equal signs, non-ASCII letters
		names := []string{"z.yaml", "a.yaml", "M.yaml", "sub/b.yaml", "0.yaml", "k-l.yaml", "k/l.yaml", "20-over,ride.yaml", "with space.yaml", "semi;colon.yaml", "eq=x.yaml", "héllo.yaml", "a,b/c,d.yaml", "tab\there.yaml"}
		r.Shuffle(len(names), func(i, j int) { names[i], names[j] = names[j], names[i] })
		l := c09layout{}
		for i := 0; i < k; i++ {
			l.files = append(l.files, names[i])
			p := names[i]
			if r.Intn(3) == 0 {
				p = "./" + p
			}
			l.patterns = append(l.patterns, p)
		}
		return l
	case 1: // one glob over directories whose glob order differs from the lexical order of the cleaned paths
		dirs := []string{"c", "c-d", "c.d", "cd", "c_d", "c0"}
		r.Shuffle(len(dirs), func(i, j int) { dirs[i], dirs[j] = dirs[j], dirs[i] })
		var fs []string
		for i := 0; i < k; i++ {
			fs = append(fs, dirs[i]+"/part.yaml")
		}
		sort.Strings(fs)
		return c09layout{files: fs, patterns: []string{"c*/part.yaml"}}
	case 2: // one glob in one directory, upper/lower case and punctuation
		names := []string{"a.yaml", "B.yaml", "b.yaml", "a-b.yaml", "a_b.yaml", "A.yaml", "ab.yaml", "a.b.yaml", "a,b.yaml", "a b.yaml", "a=b.yaml", "*.yaml", "a[1].yaml", "?.yaml"}
		r.Shuffle(len(names), func(i, j int) { names[i], names[j] = names[j], names[i] })
		var fs []string
		for i := 0; i < k; i++ {
			fs = append(fs, "conf/"+names[i])
		}
		sort.Strings(fs)
		pat := "conf/*.yaml"
		if r.Intn(2) == 0 {
			pat = "./conf/../conf/*.yaml" // not clean: matches are cleaned before sorting
		}
		return c09layout{files: fs, patterns: []string{pat}}
	default: // explicit file, then a glob with the rest, in that pattern order although the glob sorts first lexically
		l := c09layout{files: []string{"zz-first.yaml"}, patterns: []string{"zz-first.yaml"}}
		if k > 1 {
			names := []string{"g/1.yaml", "g/10.yaml", "g/2.yaml", "g/a.yaml", "g/Z.yaml"}
			r.Shuffle(len(names), func(i, j int) { names[i], names[j] = names[j], names[i] })
			fs := append([]string(nil), names[:k-1]...)
			sort.Strings(fs)
			l.files = append(l.files, fs...)
			l.patterns = append(l.patterns, "g/*.yaml")
		}
		return l
	}
}

func runBuild(c *Ctx, dir string, patterns []string) (cli.Run, string) {
	out := filepath.Join(c.W.TempDir("c09o"), "out.go")
	args := []string{"build"}
	for _, p := range patterns {
		args = append(args, "-i", p)
	}
	args = append(args, "-o", out)
	run := cli.Do(c.W, "", nil, dir, out, args...)
	b, _ := os.ReadFile(out)
	return run, string(b)
}

func checkC09(c *Ctx) error {
	c.Rule = "seeded triples (configuration, partition into 2-5 fragments with attribute-level splits of services and meta, contiguous runs of calls/tags/decorators, arbitrary partition of mappings, whole argument lists, plus decoy values in earlier fragments that later ones override) x file/pattern layouts whose glob order differs from the lexical order of cleaned paths (c-d/ vs c/, upper/lower case, ./x/../x, explicit file before a glob). Oracles: byte equality of -o between (A) the single-file form, (B) the split form, (C) the single-file form of the reference merge of the fragments in the expected file order, (D) pre-merged neighbours (associativity) and (E) the split form with empty files inserted (identity); (H) re-spelled with anchors/merge keys; (I) invalid configurations (duplicate tag, shared getter, cycle, scope conflict, dangling reference - possibly with halves in different fragments): same exit status and diagnostics split and unsplit. distinct = distinct (fragments, layout); non-trivial = >=2 fragments with at least one overridden value or one appended list spanning fragments"
	c.Assumptions = []string{"reference merge engine/ref.Merge (B.1)", "expected file order: patterns in argv order, inside a pattern bytewise order of filepath.Clean-ed matches", "the splitter is validated on every case: the reference merge of its fragments must give the original configuration back, else the case is a harness failure"}
	w := c.W
	n := c.Pick(500, 8000)
	Par(n, 16, func(i int) {
		r := rand.New(rand.NewSource(c.Seed*92821 + int64(i)))
		o := gen.DefaultOpts()
		o.TagBias = i%2 == 0
		conf := gen.Behaviour(r, o)
		k := 2 + r.Intn(4)
		parts := gen.SplitParts(r, conf, k)
		if i%5 == 4 {
			// k-1 fragments hold one whole section each and nothing else (a functions-only file, a decorators-only file, ...)
			parts = gen.PureParts(r, conf, k)
		}
		if i%4 != 3 {
			gen.AddDecoys(r, parts)
		}
		if i%3 != 2 {
			gen.AddEmpties(r, parts)
		}
		if normalize(ref.MergeAll(parts)) != normalize(*conf) {
			c.Inconclusive(fmt.Sprintf("splitter self-check failed on case %d", i))
			return
		}
		lay := c09Layout(r, k)
		dir := w.TempDir("c09")
		files := map[string]string{}
		for j, f := range lay.files {
			y := parts[j].YAML()
			if (i+j)%4 == 1 {
				// the file the pattern matches is a symbolic link to the real file kept elsewhere (ConfigMap-style mounts)
				real := filepath.Join(dir, "real-files", fmt.Sprintf("frag%d.data", j))
				_ = work.WriteFile(real, []byte(y))
				_ = os.MkdirAll(filepath.Dir(filepath.Join(dir, f)), 0o755)
				_ = os.Symlink(real, filepath.Join(dir, f))
			} else if b, ok := ysugar.Recode(y, i+j); ok && (i+j)%5 == 2 {
				// the same text saved in another encoding YAML allows (UTF-8 with BOM, UTF-16 LE/BE): what an editor on another
				// platform writes
				_ = work.WriteFile(filepath.Join(dir, f), b)
				c.Add("fragments_saved_as:"+[]string{"utf-8-bom", "utf-16le", "utf-16be"}[(i+j)%3], 1)
			} else {
				_ = work.WriteFile(filepath.Join(dir, f), []byte(y))
			}
			files["input/"+f] = y
		}
		files["patterns.txt"] = strings.Join(lay.patterns, "\n")
		files["expected-order.txt"] = strings.Join(lay.files, "\n")
		single := conf.YAML()
		files["single.yaml"] = single
		_ = work.WriteFile(filepath.Join(dir, "single-A.yaml"), []byte(single))
		runA, outA := runBuild(c, dir, []string{"single-A.yaml"})
		runB, outB := runBuild(c, dir, lay.patterns)
		key := strings.Join(lay.patterns, ",") + "\n" + filesKeyMap(files)
		over := false
		for j := range parts {
			for jj := j + 1; jj < len(parts); jj++ {
				over = over || fragmentsOverlap(parts[j], parts[jj])
			}
		}
		c.Eval(key, over)
		for _, run := range []cli.Run{runA, runB} {
			for _, b := range run.Contract() {
				c.Side("C10,C12", "cli-contract:"+sigWords(b), b+"\n"+run.Res.Stdout, files)
			}
		}
		if runA.Res.Exit != 0 {
			rejected(c, rejectReason2(runA), "single-file form rejected: "+rejectReason2(runA), files)
			return
		}
		files["stdout-split.txt"] = runB.Res.Stdout
		if runB.Res.Exit != 0 {
			c.Violate("split-form-rejected:"+sigWords(rejectReason2(runB)), "the split form of an accepted configuration is rejected: "+rejectReason2(runB), files)
			return
		}
		if outA != outB {
			c.Violate("split-changes-output", fmt.Sprintf("layout %v: output of the split form differs from the single-file form\n%s", lay.patterns, firstDiff(outA, outB)), files)
		}
		// (J) a fragment that is named by a pattern of its own arrives through a named pipe fed in pieces instead
		wild := false
		for _, p := range lay.patterns {
			wild = wild || strings.ContainsAny(p, "*?[")
		}
		if i%3 == 2 && !wild {
			for j, f := range lay.files {
				at := -1
				for pi, p := range lay.patterns {
					if p == f {
						at = pi
					}
				}
				if at < 0 || j == 0 && len(lay.files) > 1 && i%2 == 0 {
					continue
				}
				pats := append([]string{}, lay.patterns...)
				pats[at] = fmt.Sprintf("pipes-%d/p.yaml", j)
				_ = os.MkdirAll(filepath.Join(dir, filepath.Dir(pats[at])), 0o755)
				pipe, err := work.FeedFifo(filepath.Join(dir, pats[at]), []byte(parts[j].YAML()))
				if err != nil {
					break
				}
				runJ, outJ := runBuild(c, dir, pats)
				op, all := pipe.Stop()
				c.Add("fragments_read_from_a_pipe", 1)
				if runJ.Res.Exit != 0 || outJ != outB {
					files["stdout-piped.txt"] = runJ.Res.Stdout
					c.Violate("piped-fragment-changes-output", fmt.Sprintf("layout %v with %s delivered through a named pipe (opened and read completely: %v): exit %d, output equal to the one from regular files: %v\n%s", lay.patterns, f, op && all, runJ.Res.Exit, outJ == outB, firstDiff(outB, outJ)), files)
				}
				break
			}
		}
		// (C) reference merge in expected order, as a single file
		merged := ref.MergeAll(parts)
		_ = work.WriteFile(filepath.Join(dir, "single-C.yaml"), []byte(merged.YAML()))
		_, outC := runBuild(c, dir, []string{"single-C.yaml"})
		if outC != outB {
			c.Violate("merge-differs-from-reference", fmt.Sprintf("layout %v: output differs from the single-file form of the reference merge in the expected file order\n%s", lay.patterns, firstDiff(outC, outB)), files)
		}
		c.Add("split_vs_single_compared", 1)
		// (D) associativity with explicit files in merge order
		if k >= 3 {
			j := r.Intn(k - 1)
			var pats []string
			for x := 0; x < k; x++ {
				switch {
				case x == j:
					m := ref.Merge(parts[j], parts[j+1])
					name := fmt.Sprintf("assoc-%d.yaml", x)
					_ = work.WriteFile(filepath.Join(dir, name), []byte(m.YAML()))
					pats = append(pats, name)
				case x == j+1:
				default:
					name := fmt.Sprintf("assoc-%d.yaml", x)
					_ = work.WriteFile(filepath.Join(dir, name), []byte(parts[x].YAML()))
					pats = append(pats, name)
				}
			}
			_, outD := runBuild(c, dir, pats)
			if outD != outB {
				c.Violate("merge-not-associative", fmt.Sprintf("pre-merging fragments %d and %d changes the output\n%s", j, j+1, firstDiff(outB, outD)), files)
			}
			c.Add("associativity_compared", 1)
		}
		// (E) identity: empty files anywhere
		{
			var pats []string
			for x := 0; x < k; x++ {
				if r.Intn(2) == 0 {
					name := fmt.Sprintf("empty-%d.yaml", x)
					_ = work.WriteFile(filepath.Join(dir, name), []byte([]string{"", "{}\n", "# nothing here\n", "services: {}\n", "parameters:\n"}[r.Intn(5)]))
					pats = append(pats, name)
				}
				name := fmt.Sprintf("id-%d.yaml", x)
				_ = work.WriteFile(filepath.Join(dir, name), []byte(parts[x].YAML()))
				pats = append(pats, name)
			}
			_ = work.WriteFile(filepath.Join(dir, "empty-last.yaml"), nil)
			pats = append(pats, "empty-last.yaml")
			_, outE := runBuild(c, dir, pats)
			if outE != outB {
				c.Violate("empty-file-not-identity", "adding empty files changes the output\n"+firstDiff(outB, outE), files)
			}
			c.Add("identity_compared", 1)
		}
		// (F) patterns that match nothing, anywhere in the list, do not change the output
		{
			var pats []string
			for x, pt := range lay.patterns {
				if (i+x)%2 == 0 {
					pats = append(pats, fmt.Sprintf("no-such-dir-%d/*.yaml", x))
				}
				pats = append(pats, pt)
			}
			pats = append(pats, "nothing-at-all-*.yml")
			_, outF := runBuild(c, dir, pats)
			if outF != outB {
				c.Violate("empty-pattern-not-identity", fmt.Sprintf("adding patterns that match no file changes the output (patterns %v)\n%s", pats, firstDiff(outB, outF)), files)
			}
			c.Add("empty_patterns_compared", 1)
		}
		// (G) the same configuration in other YAML styles (one flow document; block style with plain and single-quoted scalars,
		// block sequences, comments, document markers; CRLF + byte order mark) gives the same output
		for style := 1; style <= 3; style++ {
			y := conf.YAMLStyle(style)
			var a, b any
			e1, e2 := yaml.Unmarshal([]byte(single), &a), yaml.Unmarshal([]byte(y), &b)
			if e1 != nil || e2 != nil || fmt.Sprintf("%#v", a) != fmt.Sprintf("%#v", b) {
				c.Inconclusive(fmt.Sprintf("emitter self-test: style %d does not parse to the same document (case %d): %v %v", style, i, e1, e2))
				continue
			}
			name := fmt.Sprintf("style-%d.yaml", style)
			_ = work.WriteFile(filepath.Join(dir, name), []byte(y))
			runS, outS := runBuild(c, dir, []string{name})
			c.Add("yaml_styles_compared", 1)
			if runS.Res.Exit != 0 || outS != outA {
				files["input/"+name] = y
				c.Violate(fmt.Sprintf("yaml-style-changes-output:style%d", style), fmt.Sprintf("the same document in YAML style %d: exit %d, output equal: %v\n%s\n%s", style, runS.Res.Exit, outS == outA, rejectReason2(runS), firstDiff(outA, outS)), files)
			}
		}
		// (H) the same document re-spelled with anchors/aliases, merge keys, explicit core tags, block scalars and comments
		// (validated: both texts decode to the same value) gives the same output; so does every fragment of the split form
		{
			rs := rand.New(rand.NewSource(c.Seed*7919 + int64(i)))
			if y, st, ok := ysugar.Sugar(rs, single, 1); ok && st.Any() {
				_ = work.WriteFile(filepath.Join(dir, "sugar.yaml"), []byte(y))
				runS, outS := runBuild(c, dir, []string{"sugar.yaml"})
				c.Add("yaml_sugar_compared", 1)
				c.Add("yaml_sugar_aliases", st.Aliases)
				c.Add("yaml_sugar_merge_keys", st.Merges)
				c.Add("yaml_sugar_explicit_tags", st.Tags)
				if runS.Res.Exit != 0 || outS != outA {
					files["input/sugar.yaml"] = y
					c.Violate("yaml-anchors-merge-keys-change-output:single", fmt.Sprintf("the same document written with anchors, aliases, merge keys and explicit tags: exit %d, output equal: %v\n%s\n%s", runS.Res.Exit, outS == outA, rejectReason2(runS), firstDiff(outA, outS)), files)
				}
			} else {
				c.Add("yaml_sugar_not_applicable", 1)
			}
			var pats []string
			changed := false
			for x := 0; x < k; x++ {
				y := parts[x].YAML()
				if ys, st, ok := ysugar.Sugar(rs, y, 0.7); ok && st.Any() {
					y, changed = ys, true
				}
				name := fmt.Sprintf("sugar-%d.yaml", x)
				_ = work.WriteFile(filepath.Join(dir, name), []byte(y))
				files["input/"+name] = y
				pats = append(pats, name)
			}
			if changed {
				runS, outS := runBuild(c, dir, pats)
				c.Add("yaml_sugar_split_compared", 1)
				if runS.Res.Exit != 0 || outS != outB {
					c.Violate("yaml-anchors-merge-keys-change-output:split", fmt.Sprintf("the fragments written with anchors, aliases, merge keys and explicit tags: exit %d, output equal: %v\n%s\n%s", runS.Res.Exit, outS == outB, rejectReason2(runS), firstDiff(outB, outS)), files)
				}
			}
		}
		// (I) configurations that are INVALID as a whole: the split form must be rejected with the same diagnostics as the single
		// file, also when the defect only exists after merging (the same tag appended by two files, a cycle or a scope conflict
		// whose halves live in different files, a getter used by services of two files)
		if i%2 == 0 {
			bad := conf.Clone()
			what := ""
			switch (i / 2) % 5 {
			case 0:
				what = "duplicate-tag"
				si := r.Intn(len(bad.Services))
				for x := range bad.Services {
					if len(bad.Services[(si+x)%len(bad.Services)].Tags) > 0 && !bad.Services[(si+x)%len(bad.Services)].IsTodo() {
						si = (si + x) % len(bad.Services)
						break
					}
				}
				sv := &bad.Services[si]
				if sv.IsTodo() {
					what = ""
					break
				}
				if len(sv.Tags) == 0 {
					sv.Tags = []cfg.Tag{{Name: "dupt", Prio: cfg.P(3)}}
				}
				sv.Tags = append(append([]cfg.Tag{}, sv.Tags...), sv.Tags[r.Intn(len(sv.Tags))])
			case 1:
				what = "same-getter"
				n := 0
				for x := range bad.Services {
					if sv := &bad.Services[x]; !sv.IsTodo() && n < 2 {
						sv.Getter = cfg.P("SharedGetterName")
						n++
					}
				}
				if n < 2 {
					what = ""
				}
			case 2:
				what = "cycle"
				gen.Inject(r, &bad, "cycle-svc", i)
			case 3:
				what = "scope"
				gen.Inject(r, &bad, "scope", i)
			default:
				what = "dangling"
				gen.Inject(r, &bad, []string{"missing-param", "missing-service", "missing-mixed"}[r.Intn(3)], i)
			}
			if what != "" {
				bparts := gen.SplitParts(r, &bad, k)
				if normalize(ref.MergeAll(bparts)) != normalize(bad) {
					c.Inconclusive(fmt.Sprintf("splitter self-check failed on invalid case %d (%s)", i, what))
				} else {
					_ = work.WriteFile(filepath.Join(dir, "bad-single.yaml"), []byte(bad.YAML()))
					var pats []string
					bfiles := map[string]string{"input/bad-single.yaml": bad.YAML()}
					for x := range bparts {
						name := fmt.Sprintf("bad-%d.yaml", x)
						_ = work.WriteFile(filepath.Join(dir, name), []byte(bparts[x].YAML()))
						bfiles["input/"+name] = bparts[x].YAML()
						pats = append(pats, name)
					}
					runS, _ := runBuild(c, dir, []string{"bad-single.yaml"})
					runP, _ := runBuild(c, dir, pats)
					c.Add("invalid_configurations_split_vs_single", 1)
					c.Add("invalid:"+what, 1)
					if runS.Res.Exit == 0 {
						c.Add("invalid_configurations_accepted_as_single_file(unexpected)", 1)
					}
					if runS.Res.Exit != runP.Res.Exit || strings.Join(runS.Rep.List, "\n") != strings.Join(runP.Rep.List, "\n") {
						bfiles["stdout-single.txt"] = runS.Res.Stdout
						bfiles["stdout-split.txt"] = runP.Res.Stdout
						c.Violate("split-changes-verdict:"+what, fmt.Sprintf("an invalid configuration (%s): single file exit %d, split over %d files exit %d\nsingle: %q\nsplit:  %q", what, runS.Res.Exit, k, runP.Res.Exit, runS.Rep.List, runP.Rep.List), bfiles)
					}
				}
			}
		}
		if i == 2 {
			c.Sample(map[string]any{"patterns": lay.patterns, "expected_file_order": lay.files, "fragments": fragmentTexts(parts), "outputs_equal": outA == outB})
		}
	})
	return nil
}

func fragmentTexts(parts []cfg.Config) []string {
	var out []string
	for _, p := range parts {
		out = append(out, p.YAML())
	}
	return out
}

func filesKeyMap(m map[string]string) string {
	var ks []string
	for k := range m {
		if strings.HasPrefix(k, "input/") {
			ks = append(ks, k)
		}
	}
	sort.Strings(ks)
	var sb strings.Builder
	for _, k := range ks {
		sb.WriteString(k + "\n" + m[k] + "\n")
	}
	return sb.String()
}

func rejectReason2(run cli.Run) string {
	if t := run.Rep.FailingTop(); t != nil {
		return t.Name + ": " + strings.Join(run.Rep.List, " | ")
	}
	return fmt.Sprintf("exit %d %s", run.Res.Exit, run.Res.Stderr)
}

// fragmentsOverlap: does the later fragment override or extend something of the earlier one?
func fragmentsOverlap(a, b cfg.Config) bool {
	for _, sb := range b.Services {
		for _, sa := range a.Services {
			if sa.Name == sb.Name {
				return true
			}
		}
	}
	for _, pb := range b.Params {
		for _, pa := range a.Params {
			if pa.K == pb.K {
				return true
			}
		}
	}
	return len(a.Decorators) > 0 && len(b.Decorators) > 0
}
