package mon

import (
	"bytes"
	"encoding/base64"
	"fmt"
	"math/rand"
	"os"
	"os/exec"
	"path/filepath"
	"regexp"
	"strings"
	"syscall"
	"time"

	"gopkg.in/yaml.v3"

	"verif/cfg"
	"verif/cli"
	"verif/gen"
	"verif/work"
)

func init() { Register("C12", "exploration", checkC12) }

// c12Corpus: valid and invalid configurations from the other generators.
func c12Corpus(seed int64, n int) []string {
	var out []string
	for i := 0; i < n; i++ {
		r := rand.New(rand.NewSource(seed*2654435761 + int64(i)))
		o := gen.DefaultOpts()
		o.HostileAlias = i%3 == 0
		conf := gen.Behaviour(r, o)
		if i%2 == 1 {
			for k := 0; k < 1+r.Intn(3); k++ {
				gen.Inject(r, conf, gen.DefectKinds[r.Intn(len(gen.DefectKinds))], k)
			}
		}
		if i%5 == 0 {
			conf.Version = cfgStr(fmt.Sprintf("%d.%d.%d", r.Intn(3), r.Intn(4), r.Intn(9)))
		}
		out = append(out, conf.YAML())
	}
	out = append(out, "", "{}", "services: ~\n", "parameters: ~\nservices: {a: {value: X}}\n")
	return out
}

func cfgStr(s string) *cfg.Val { v := cfg.Str(s); return &v }

var c12Snips = []string{"~", "null", "[]", "{}", "[1, [2, [3]]]", "{a: {b: {c: 1}}}", "!!binary aGVsbG8=", "!!binary \"/3NhbHQ6JXBlcHBlciU=\"", "!!binary /yUl/yVhJQ==", "!!float 1", "!!str 5", "!!int \"5\"", "&anc x", "*anc", "<<: {a: 1}", "? [complex, key]\n: v", "|\n  block\n  text", ">-\n  folded", "0x1F", "0o17", "1_000", ".inf", "-.inf", ".NaN", "1e400", "-0", "2001-12-14t21:59:43.10-05:00", "2002-12-14", "yes", "on", "~", "\"\\u0000\"", "\"\\ud800\"", "'it''s'", "@", "@@", "%", "%%", "%%%", "!value", "!value ", "!tagged", "!tagged  ", "$gontainer", "$gontainer2", "%a(%", "%a()%", "%todo(", "%env(\"X\", )%", "%envInt(\"X\", 1.5)%", "9223372036854775808", "-9223372036854775809", "18446744073709551616", "!!set {a, b}", "!!omap [a: 1]", "- - - a", "{a: 1, a: 2}", "\ufeff", "\u2028", "\t", "#", "---", "...", "--- a\n--- b"}

// mutate applies a few byte/token level edits.
func mutate(r *rand.Rand, s string, corpus []string) string {
	b := []byte(s)
	n := 1 + r.Intn(4)
	for k := 0; k < n; k++ {
		switch r.Intn(9) {
		case 0: // flip a byte
			if len(b) > 0 {
				b[r.Intn(len(b))] = byte(r.Intn(256))
			}
		case 1: // delete a span
			if len(b) > 2 {
				i := r.Intn(len(b) - 1)
				j := i + 1 + r.Intn(minInt(20, len(b)-i-1))
				b = append(b[:i:i], b[j:]...)
			}
		case 2: // duplicate a span
			if len(b) > 2 {
				i := r.Intn(len(b) - 1)
				j := i + 1 + r.Intn(minInt(40, len(b)-i-1))
				b = append(b[:j:j], append(append([]byte{}, b[i:j]...), b[j:]...)...)
			}
		case 3: // insert a snippet
			sn := c12Snips[r.Intn(len(c12Snips))]
			i := 0
			if len(b) > 0 {
				i = r.Intn(len(b))
			}
			b = append(b[:i:i], append([]byte(sn), b[i:]...)...)
		case 4: // replace the value after a random colon with a snippet
			idx := bytes.IndexByte(b[r.Intn(maxInt(1, len(b))):], ':')
			if idx >= 0 {
				lines := strings.Split(string(b), "\n")
				li := r.Intn(len(lines))
				if c := strings.Index(lines[li], ": "); c >= 0 {
					lines[li] = lines[li][:c+2] + c12Snips[r.Intn(len(c12Snips))]
				}
				b = []byte(strings.Join(lines, "\n"))
			}
		case 5: // splice with another corpus entry
			o := corpus[r.Intn(len(corpus))]
			if len(o) > 0 && len(b) > 0 {
				b = append(b[:r.Intn(len(b))], []byte(o[r.Intn(len(o)):])...)
			}
		case 6: // swap two lines
			lines := strings.Split(string(b), "\n")
			if len(lines) > 2 {
				i, j := r.Intn(len(lines)), r.Intn(len(lines))
				lines[i], lines[j] = lines[j], lines[i]
				b = []byte(strings.Join(lines, "\n"))
			}
		case 7: // change indentation of a line
			lines := strings.Split(string(b), "\n")
			i := r.Intn(len(lines))
			if r.Intn(2) == 0 {
				lines[i] = "  " + lines[i]
			} else {
				lines[i] = strings.TrimPrefix(lines[i], "  ")
			}
			b = []byte(strings.Join(lines, "\n"))
		default: // a long token
			i := 0
			if len(b) > 0 {
				i = r.Intn(len(b))
			}
			b = append(b[:i:i], append(bytes.Repeat([]byte{"aZ0._-%@\"{[ "[r.Intn(12)]}, 1+r.Intn(3000)), b[i:]...)...)
		}
	}
	if len(b) > 1<<16 {
		b = b[:1<<16]
	}
	return string(b)
}

func minInt(a, b int) int {
	if a < b {
		return a
	}
	return b
}
func maxInt(a, b int) int {
	if a > b {
		return a
	}
	return b
}

// typeConfusions replaces every value node of a template with nodes of other kinds.
func typeConfusions() []string {
	tpl := `version: "1.2.3"
meta:
  pkg: "gen"
  container_type: "Ctr"
  container_constructor: "NewCtr"
  default_must_getter: true
  imports:
    pa: "fixt/pa"
  functions:
    fn: "pa.Fn"
parameters:
  p: "%fn(1)%"
  q: 5
services:
  s:
    getter: "GetS"
    must_getter: true
    type: "*pa.Obj"
    constructor: "pa.New"
    arguments: ["%p%", "@t", 1]
    calls:
      - ["Set", ["x"], false]
    fields:
      F1: "v"
    tags: ["tg", {"name": "u", "priority": 2}]
    scope: "shared"
    todo: false
  t:
    value: "pa.Global"
decorators:
  - tag: "tg"
    decorator: "pa.DecSame"
    arguments: ["@t"]
`
	var root yaml.Node
	if err := yaml.Unmarshal([]byte(tpl), &root); err != nil {
		panic(err)
	}
	alts := []string{`"str"`, "5", "1.5", "true", "~", "[a, b]", "{k: v}", "[]", "{}", "!!binary aGk=", "!!float 3", "[[[[[[[[[[1]]]]]]]]]]", "{a: {a: {a: {a: {a: 1}}}}}", "&x [1]", "\"\"", "2001-12-14", "0x10", "-1", "18446744073709551615", ".nan"}
	var out []string
	var nodes []*yaml.Node
	var walk func(n *yaml.Node)
	walk = func(n *yaml.Node) {
		switch n.Kind {
		case yaml.DocumentNode, yaml.SequenceNode:
			for _, c := range n.Content {
				nodes = append(nodes, c)
				walk(c)
			}
		case yaml.MappingNode:
			for i := 0; i+1 < len(n.Content); i += 2 {
				nodes = append(nodes, n.Content[i+1])
				walk(n.Content[i+1])
			}
		}
	}
	walk(&root)
	for _, n := range nodes {
		saved := *n
		for _, a := range alts {
			var alt yaml.Node
			if err := yaml.Unmarshal([]byte(a), &alt); err != nil || len(alt.Content) == 0 {
				continue
			}
			*n = *alt.Content[0]
			if b, err := yaml.Marshal(&root); err == nil {
				out = append(out, string(b))
			}
			*n = saved
		}
	}
	// strings that are not valid UTF-8 can only be written as !!binary scalars: every scalar position gets byte strings with
	// stray continuation bytes, truncated and overlong sequences, encoded surrogates and NULs next to `%` tokens and the
	// sigils of the special argument forms
	bins := []string{"\xff", "\xffsalt:%q%", "%\xff%", "%q\xff%", "\xe2\x82", "a\xe2\x82%q%", "\xed\xa0\x80%q%", "\xf8\x88\x80\x80\x80%%", "%%\xff%%", "\xff%", "\x00%q%\x00",
		"@t\xff", "\xff@t", "!value \xffpa.Global", "!tagged \xfftg", "$gontainer\xff", "\xfe\xff%fn(\"\xff\")%", "\xc0\x80%q%\xc0", "\x80\x80\x80%q%%q%", "pa.\xffNew", "Get\xff"}
	for _, n := range nodes {
		if n.Kind != yaml.ScalarNode {
			continue
		}
		saved := *n
		for _, bs := range bins {
			*n = yaml.Node{Kind: yaml.ScalarNode, Tag: "!!binary", Value: base64.StdEncoding.EncodeToString([]byte(bs))}
			if b, err := yaml.Marshal(&root); err == nil {
				out = append(out, string(b))
			}
			*n = saved
		}
	}
	// import paths of every shape in every position that holds a Go reference (registered as alias or not): one segment, major
	// version suffixes with and without a base, dots, dashes, underscores, many segments, trailing/double slashes, quoted forms
	paths := []string{"v2", "v10", "v0", "v1", "v", "V2", "v2x", "a/v2", "a/b/v3", "v2/v3", "v3/v2/v1", "x.y/z-w/v4", "a.b", "a-b", "a_b", "a/", "a//b", "a/b/", "gopkg.in/yaml.v3", "k8s.io/api/core/v1",
		"a/v2/b", "v2.x", "a/v02", "a/v2.1", "0a", "a/0", "a/-", "a/.", "a/..", "x/y/z/w/v/u/t/s/r/q/p/o/n/m/l/k/j/i/h/g/f/e/d/c/b/a", "fmt", "context", "main", "go", "internal", "vendor/x", "C", "unsafe", "builtin"}
	for _, n := range nodes {
		if n.Kind != yaml.ScalarNode || !strings.Contains(n.Value, "pa.") && n.Value != "fixt/pa" {
			continue
		}
		saved := *n
		for _, pth := range paths {
			for _, q := range []string{pth, `"` + pth + `"`} {
				if saved.Value == "fixt/pa" {
					n.Value = q
				} else {
					n.Value = strings.Replace(saved.Value, "pa.", q+".", 1)
				}
				n.Style = yaml.SingleQuotedStyle
				if b, err := yaml.Marshal(&root); err == nil {
					out = append(out, string(b))
				}
				*n = saved
			}
		}
	}
	// keys of other kinds, merge keys, aliases across sections, deep nesting, huge names
	out = append(out,
		"services:\n  ? [a, b]\n  : {value: X}\n",
		"services:\n  5: {value: X}\n",
		"services:\n  ~: {value: X}\n",
		"base: &b {value: X}\nservices:\n  a: *b\n  c:\n    <<: *b\n    getter: G\n",
		"services: &s\n  a: {value: X}\nparameters: *s\n",
		"parameters:\n  a: &a \"%b%\"\n  b: *a\n",
		"services:\n  a:\n    value: X\n    arguments: "+strings.Repeat("[", 10000)+strings.Repeat("]", 10000)+"\n",
		"parameters:\n  p: "+strings.Repeat("{a: ", 3000)+"1"+strings.Repeat("}", 3000)+"\n",
		"services:\n  "+strings.Repeat("a", 1<<20)+": {value: X}\n",
		"parameters:\n  p: \""+strings.Repeat("%%", 1<<15)+"\"\n",
		"parameters:\n  p: \""+strings.Repeat("%a%", 5000)+"\"\n  a: 1\n",
		"services:\n  s:\n    value: X\n    tags: ["+strings.Repeat("t, ", 20000)+"t]\n",
		"services:\n  s:\n    constructor: New\n    arguments: ["+strings.Repeat("\"@s2\", ", 2000)+"1]\n  s2: {value: X}\n",
		"a: &a [*a]\n",
		"services:\n  s: &s\n    value: X\n    fields: {F: *s}\n",
	)
	return out
}

var rePanic = regexp.MustCompile(`(?m)^(panic:|fatal error:|goroutine \d+ \[)`)

func checkC12(c *Ctx) error {
	nMut := c.Pick(9000, 60000)
	c.Rule = fmt.Sprintf("(1) %d seeded byte/token-level mutants of a corpus of valid and invalid configurations (flip, delete, duplicate, splice, snippet insertion incl. anchors/aliases/tags/merge keys/timestamps/huge numbers, indentation changes, long tokens) x random flag sets x 1-3 files and patterns x (a quarter of the runs) an extra directory entry the patterns also match (dangling link, link loop, directory, link to a directory or device, empty file, glob characters or 240 bytes in the name, the same file through a link), through the real binary under a watchdog; (2) schema-aware type confusions: every value position of a template configuration replaced by 20 node kinds, every position holding a Go reference by 45 import-path shapes (one segment, /vN suffixes, dots, dashes, reserved names; quoted and unquoted), every scalar position by 21 !!binary byte strings that are not valid UTF-8 (next to % tokens and argument sigils), plus non-scalar keys, merge keys, aliases across sections, 10 000-deep nesting, 1 MiB names; pairs of confusions of the same position as two merged input files; 4-101 -i flags; (3) thorough tier: native coverage-guided fuzzing of the build command in-process (go test -fuzz, iteration-bounded). Oracle: exit status in {0,1}, no panic/fatal error/goroutine dump on stderr, CLI contract (report consistent; failing run leaves -o untouched; success leaves a parsable file), run time under 1000x the normal time (a timeout only counts after it reproduces twice). distinct = distinct input bytes; non-trivial = input differs from every corpus entry", nMut)
	c.Assumptions = []string{"inputs whose reference structure would have very many elementary cycles are excluded by construction (mutants of sparse configurations; the fuzz target skips inputs with more than 40 reference markers)", "coverage-guided mutation is not seedable: crashers are saved as replay files"}
	w := c.W
	corpus := c12Corpus(c.Seed, c.Pick(120, 600))
	flagSets := [][]string{{}, {"--stub"}, {"--quiet"}, {"--ignore-missing-params"}, {"--ignore-missing-services"}, {"--stub", "--ignore-missing-params", "--ignore-missing-services"}}
	type job struct {
		files []string
		pats  []string
		flags []string
		kind  string
		shape int // file-system entries next to the inputs that the patterns also match (0 = none)
	}
	jobs := make([]job, 0, nMut+2000)
	r := rand.New(rand.NewSource(c.Seed))
	for i := 0; i < nMut; i++ {
		nf := 1 + r.Intn(3)
		if r.Intn(3) > 0 {
			nf = 1
		}
		var fs []string
		for k := 0; k < nf; k++ {
			fs = append(fs, mutate(r, corpus[r.Intn(len(corpus))], corpus))
		}
		pats := []string{"*.yaml"}
		switch r.Intn(5) {
		case 0:
			pats = []string{"f0.yaml", "f?.yaml"}
		case 1:
			pats = []string{"f0.yaml"}
		case 2:
			pats = []string{"[", "f0.yaml"}
		case 3:
			pats = []string{"nothing*", "*.yaml"}
		}
		shape := 0
		if r.Intn(4) == 0 {
			shape = 1 + r.Intn(9)
		}
		jobs = append(jobs, job{fs, pats, flagSets[r.Intn(len(flagSets))], "mutant", shape})
	}
	tc := typeConfusions()
	c.Set("type_confusions", len(tc))
	for i, y := range tc {
		jobs = append(jobs, job{[]string{y}, []string{"f0.yaml"}, flagSets[i%len(flagSets)], "type-confusion", 0})
	}
	// two confusions of (mostly) the same position as two input files: the merge sees both shapes of one attribute
	for i := range tc {
		k := i + 1
		if i%2 == 1 {
			k = i + 6
		}
		if k >= len(tc) || (!c.Thorough() && i%3 == 2) {
			continue
		}
		jobs = append(jobs, job{[]string{tc[i], tc[k]}, []string{"f0.yaml", "f1.yaml"}, flagSets[i%len(flagSets)], "type-confusion-pair", 0})
	}
	// how many -i flags there are is input too: 9, 10, 11, 16, 17, 99, 100, 101 patterns (files, wildcards, patterns matching
	// nothing), with and without --quiet
	for _, np := range []int{4, 9, 10, 11, 16, 17, 99, 100, 101} {
		for variant := 0; variant < 4; variant++ {
			var fs, pats []string
			if variant == 3 {
				// one wildcard matching all of them (17, 33, 100 files read through a single pattern)
				for k := 0; k < np; k++ {
					fs = append(fs, fmt.Sprintf("parameters:\n  p%d: %d\n", k, k))
				}
				jobs = append(jobs, job{fs, []string{"f*.yaml"}, flagSets[(np+variant)%len(flagSets)], "many-files-one-pattern", 0})
				continue
			}
			for k := 0; k < np; k++ {
				switch {
				case variant == 1 && k%3 == 1:
					pats = append(pats, fmt.Sprintf("nothing-%d-*.yaml", k))
				case variant == 2 && k > 0:
					pats = append(pats, fmt.Sprintf("also-nothing/%d.yaml", k))
				default:
					fs = append(fs, fmt.Sprintf("parameters:\n  p%d: %d\n", k, k))
					pats = append(pats, fmt.Sprintf("f%d.yaml", len(fs)-1))
				}
			}
			jobs = append(jobs, job{fs, pats, flagSets[(np+variant)%len(flagSets)], "many-patterns", 0})
		}
	}
	// acyclic but path-rich: 12-30 layers of three services, every service of a layer depends on every service of the next
	// (3^30 paths, not one cycle), with an explicitly shared service on top, a contextual one at the bottom, or neither
	for _, layers := range []int{12, 20, 30} {
		for variant := 0; variant < 3; variant++ {
			var sb strings.Builder
			sb.WriteString("services:\n")
			for l := 0; l < layers; l++ {
				for k := 0; k < 3; k++ {
					fmt.Fprintf(&sb, "  l%02d.%d:\n    constructor: \"New\"\n", l, k)
					if l+1 < layers {
						fmt.Fprintf(&sb, "    arguments: [\"@l%02d.0\", \"@l%02d.1\", \"@l%02d.2\"]\n", l+1, l+1, l+1)
					}
					if variant >= 1 && l == 0 {
						sb.WriteString("    scope: \"shared\"\n")
					}
					if variant == 2 && l == layers-1 && k == 2 {
						sb.WriteString("    scope: \"contextual\"\n")
					}
				}
			}
			jobs = append(jobs, job{[]string{sb.String()}, []string{"f0.yaml"}, flagSets[(layers+variant)%len(flagSets)], "layered-dag", 0})
		}
	}
	inCorpus := map[string]bool{}
	for _, s := range corpus {
		inCorpus[s] = true
	}
	var slow []int
	durs := make([]time.Duration, len(jobs))
	exec1 := func(j job, dir string) cli.Run {
		for k, f := range j.files {
			_ = work.WriteFile(filepath.Join(dir, fmt.Sprintf("f%d.yaml", k)), []byte(f))
		}
		// what a glob may also match in a real directory: editor lock files (dangling links), link loops, directories,
		// links to directories and devices, empty files, odd names
		switch j.shape {
		case 1:
			_ = os.Symlink("user@host.1234:1700000000", filepath.Join(dir, ".#f0.yaml"))
		case 2:
			_ = os.Symlink("f9.yaml", filepath.Join(dir, "f9.yaml"))
		case 3:
			_ = os.MkdirAll(filepath.Join(dir, "f8.yaml", "inner.yaml"), 0o755)
		case 4:
			_ = os.MkdirAll(filepath.Join(dir, "realdir"), 0o755)
			_ = os.Symlink("realdir", filepath.Join(dir, "f7.yaml"))
		case 5:
			_ = os.Symlink("/dev/null", filepath.Join(dir, "f6.yaml"))
		case 6:
			_ = work.WriteFile(filepath.Join(dir, "f5.yaml"), nil)
		case 7:
			_ = work.WriteFile(filepath.Join(dir, "f [x]*?.yaml"), []byte("parameters: {odd: 1}\n"))
		case 8:
			_ = work.WriteFile(filepath.Join(dir, "f"+strings.Repeat("n", 240)+".yaml"), []byte("parameters: {long: 1}\n"))
		case 9:
			_ = os.Symlink("../"+filepath.Base(dir)+"/f0.yaml", filepath.Join(dir, "f4.yaml")) // the same file twice, through a link
		}
		out := filepath.Join(dir, "out.go")
		args := []string{"build"}
		for _, p := range j.pats {
			args = append(args, "-i", p)
		}
		args = append(args, "-o", "out.go")
		args = append(args, j.flags...)
		return cli.Do(w, "", nil, dir, out, args...)
	}
	slowMu := make(chan struct{}, 1)
	slowMu <- struct{}{}
	Par(len(jobs), 16, func(i int) {
		j := jobs[i]
		if work.ToolTimeouts() > 40 {
			return // the tree hangs on many inputs: enough witnesses, do not wait for thousands of watchdogs
		}
		dir := w.TempDir("c12")
		run := exec1(j, dir)
		durs[i] = run.Res.Dur
		key := strings.Join(j.files, "\x00") + strings.Join(j.pats, ",") + strings.Join(j.flags, ",") + fmt.Sprint(j.shape)
		if j.shape != 0 {
			c.Add("runs_with_extra_directory_entries", 1)
		}
		c.Eval(key, !(len(j.files) == 1 && inCorpus[j.files[0]]))
		files := map[string]string{"args.txt": strings.Join(run.Args, " "), "extra-directory-entry.txt": fmt.Sprint("shape ", j.shape, " (see engine/mon/c12.go exec1)"), "stderr.txt": run.Res.Stderr, "stdout.txt": firstLines(run.Res.Stdout, 80)}
		for k, f := range j.files {
			files[fmt.Sprintf("input/f%d.yaml", k)] = f
		}
		if run.Res.Exit == 0 {
			c.Add("runs_accepted", 1)
		} else {
			c.Add("runs_rejected", 1)
		}
		if rePanic.MatchString(run.Res.Stderr) || strings.Contains(run.Res.Stdout, "panic:") {
			loc := panicSite(run.Res.Stderr)
			c.Violate("panic:"+loc, fmt.Sprintf("%s input: the tool panicked\n%s", j.kind, firstLines(run.Res.Stderr, 25)), files)
			return
		}
		if run.Res.TimedOut || run.Res.Dur > 20*time.Second {
			<-slowMu
			slow = append(slow, i)
			slowMu <- struct{}{}
			return
		}
		for _, b := range run.Contract() {
			c.Violate("contract:"+sigWords(b), fmt.Sprintf("%s input: %s\nstderr: %s", j.kind, b, firstLines(run.Res.Stderr, 10)), files)
		}
		if run.Res.Exit == 0 && !run.Quiet {
			if b, err := os.ReadFile(filepath.Join(dir, "out.go")); err != nil || !bytes.Contains(b, []byte("package ")) {
				c.Violate("success-without-go-file", "exit 0 but the output is not a Go file", files)
			}
		}
		if i%1500 == 7 {
			c.Sample(map[string]any{"kind": j.kind, "flags": j.flags, "patterns": j.pats, "input_head": firstLines(j.files[0], 12), "exit": run.Res.Exit, "diagnostics": head(run.Rep.List, 3)})
		}
	})
	// slow runs: a hang only counts when it reproduces twice alone
	if len(slow) > 6 {
		slow = slow[:6]
	}
	for _, i := range slow {
		j := jobs[i]
		again := 0
		for k := 0; k < 2; k++ {
			run := exec1(j, w.TempDir("c12s"))
			if run.Res.TimedOut || run.Res.Dur > 20*time.Second {
				again++
			}
		}
		files := map[string]string{}
		for k, f := range j.files {
			files[fmt.Sprintf("input/f%d.yaml", k)] = f
		}
		if again == 2 {
			c.Violate("hang", fmt.Sprintf("%s input: the run was stopped by the watchdog three times in a row (normal run time: ~15ms)", j.kind), files)
		} else {
			c.Add("slow_runs_not_reproduced", 1)
		}
	}
	var maxDur time.Duration
	for _, d := range durs {
		if d > maxDur {
			maxDur = d
		}
	}
	c.Set("max_run_ms", int(maxDur/time.Millisecond))
	c12OutputKinds(c)
	c12Terminals(c)
	if c.Thorough() || os.Getenv("VERIF_C12_FUZZ") != "" {
		return c12NativeFuzz(c, corpus)
	}
	return nil
}

// c12Terminals: standard output is a terminal of some width (a CI log viewer, a split pane, a watch window). The size of the window is
// no input of the build: same exit status as with a file, no panic.
func c12Terminals(c *Ctx) {
	w := c.W
	good := "meta:\n  pkg: gen\nparameters:\n  a: 1\n  b: \"%a%-%a%\"\nservices:\n  s:\n    value: \"Global\"\n"
	bad := "parameters:\n  a: \"%b%\"\n  b: \"%a%\"\nservices:\n  s:\n    value: \"Global\"\n    arguments: [\"%nope%\"]\n"
	for _, cols := range []int{0, 1, 8, 20, 24, 30, 40, 59, 60, 61, 80, 200, 65535} {
		for yi, y := range []string{good, bad} {
			for _, flags := range [][]string{{}, {"--ignore-missing-params"}, {"--stub", "--ignore-missing-services"}} {
				dir := w.TempDir("c12t")
				_ = work.WriteFile(filepath.Join(dir, "in.yaml"), []byte(y))
				args := append([]string{"build", "-i", "in.yaml", "-o", "out.go"}, flags...)
				res, ok := work.RunPty(w.Bin, dir, w.SaneEnv(), 120*time.Second, cols, 24, args...)
				if !ok {
					c.Add("terminal_runs_skipped_no_pseudo_terminal", 1)
					continue
				}
				c.Add("runs_with_stdout_on_a_terminal", 1)
				c.Eval(fmt.Sprintf("terminal:%d:%d:%v", cols, yi, flags), true)
				d2 := w.TempDir("c12t")
				_ = work.WriteFile(filepath.Join(d2, "in.yaml"), []byte(y))
				ref := cli.Do(w, "", nil, d2, "", args...)
				files := map[string]string{"input/in.yaml": y, "args.txt": strings.Join(args, " "), "terminal.txt": fmt.Sprintf("%d columns x 24 rows", cols), "stdout.txt": res.Stdout, "stderr.txt": res.Stderr}
				switch {
				case res.TimedOut:
					c.Violate("hang", fmt.Sprintf("standard output on a terminal of %d columns: the run did not end", cols), files)
				case rePanic.MatchString(res.Stderr) || strings.Contains(res.Stdout, "panic:"):
					c.Violate("panic:"+panicSite(res.Stderr), fmt.Sprintf("standard output on a terminal of %d columns: the tool panicked\n%s", cols, firstLines(res.Stderr, 25)), files)
				case res.Exit != ref.Res.Exit:
					c.Violate("terminal-changes-exit-status", fmt.Sprintf("standard output on a terminal of %d columns: exit %d, with a file %d", cols, res.Exit, ref.Res.Exit), files)
				}
			}
		}
	}
}

// c12OutputKinds: the value of -o is as arbitrary as the inputs. A named pipe somebody reads from (what `-o >(gofmt)` or
// `-o /dev/stdout | ...` amount to), a link to one, /dev/null: the run ends, status 0 or 1, and on status 0 the reader has received
// exactly what a regular file would hold. The pipe is drained by this process while the tool runs.
func c12OutputKinds(c *Ctx) {
	w := c.W
	good := "meta:\n  pkg: gen\nparameters:\n  a: 1\n  b: \"%a%-%a%\"\nservices:\n  s:\n    value: \"Global\"\n"
	bad := "parameters:\n  a: \"%b%\"\n  b: \"%a%\"\n"
	for k, kind := range []string{"fifo", "link-to-fifo", "dev-null", "fifo", "link-to-fifo", "fifo-stub"} {
		for vi, y := range []string{good, bad} {
			hangs := 0
			var last cli.Run
			var got string
			for attempt := 0; attempt < 3; attempt++ {
				dir := w.TempDir("c12o")
				_ = work.WriteFile(filepath.Join(dir, "in.yaml"), []byte(y))
				out := filepath.Join(dir, "out.go")
				stop := make(chan struct{})
				done := make(chan string, 1)
				if kind != "dev-null" {
					target := out
					if kind == "link-to-fifo" {
						target = filepath.Join(dir, "the-pipe")
						_ = os.Symlink(target, out)
					}
					if err := syscall.Mkfifo(target, 0o644); err != nil {
						c.Inconclusive("cannot create a named pipe: " + err.Error())
						return
					}
					fd, err := syscall.Open(target, syscall.O_RDONLY|syscall.O_NONBLOCK, 0)
					if err != nil {
						c.Inconclusive("cannot open the named pipe: " + err.Error())
						return
					}
					go func() {
						var sb strings.Builder
						buf := make([]byte, 1<<16)
						for {
							n, err := syscall.Read(fd, buf)
							if n > 0 {
								sb.Write(buf[:n])
								continue
							}
							_ = err
							select {
							case <-stop:
								// the tool has exited: whatever is still in the pipe
								for {
									n, _ := syscall.Read(fd, buf)
									if n <= 0 {
										break
									}
									sb.Write(buf[:n])
								}
								_ = syscall.Close(fd)
								done <- sb.String()
								return
							default:
								time.Sleep(2 * time.Millisecond)
							}
						}
					}()
				} else {
					out = "/dev/null"
					go func() { <-stop; done <- "" }()
				}
				args := []string{"build", "-i", "in.yaml", "-o", out}
				if kind == "fifo-stub" {
					args = append(args, "--stub")
				}
				last = cli.Do(w, "", nil, dir, "", args...)
				close(stop)
				got = <-done
				c.Add("runs_with_special_output_paths", 1)
				if !(last.Res.TimedOut || last.Res.Dur > 20*time.Second) {
					break
				}
				hangs++
			}
			files := map[string]string{"input/in.yaml": y, "args.txt": strings.Join(last.Args, " "), "stdout.txt": last.Res.Stdout, "stderr.txt": last.Res.Stderr, "output-kind.txt": kind}
			c.Eval(fmt.Sprintf("output-kind:%s:%d:%d", kind, vi, k), true)
			if hangs == 3 {
				c.Violate("hang", fmt.Sprintf("-o is a %s with a reader: the run was stopped by the watchdog three times in a row", kind), files)
				continue
			}
			if rePanic.MatchString(last.Res.Stderr) {
				c.Violate("panic:"+panicSite(last.Res.Stderr), "-o is a "+kind+": the tool panicked\n"+firstLines(last.Res.Stderr, 25), files)
				continue
			}
			if last.Res.Exit != 0 && last.Res.Exit != 1 {
				c.Violate("contract:exit-status", fmt.Sprintf("-o is a %s: exit status %d", kind, last.Res.Exit), files)
			}
			if want := map[int]int{0: 0, 1: 1}[vi]; last.Res.Exit != want && !last.Res.TimedOut {
				c.Violate("output-kind-changes-verdict", fmt.Sprintf("-o is a %s: exit status %d, with a regular file it is %d", kind, last.Res.Exit, want), files)
			}
			if kind != "dev-null" && last.Res.Exit == 0 {
				// what the reader received = what a regular file holds
				d2 := w.TempDir("c12o")
				_ = work.WriteFile(filepath.Join(d2, "in.yaml"), []byte(y))
				a2 := append([]string{}, last.Args...)
				for i := range a2 {
					if a2[i] == "-o" {
						a2[i+1] = filepath.Join(d2, "plain.go")
					}
				}
				r2 := cli.Do(w, "", nil, d2, "", a2...)
				b, _ := os.ReadFile(filepath.Join(d2, "plain.go"))
				if r2.Res.Exit != 0 || string(b) != got {
					files["received.txt"] = got
					c.Violate("output-through-pipe-differs", fmt.Sprintf("-o is a %s: the reader received %d bytes, a regular file holds %d", kind, len(got), len(b)), files)
				}
			}
			if last.Res.Exit != 0 && got != "" {
				c.Violate("failing-run-wrote-output", fmt.Sprintf("-o is a %s: a failing run wrote %d bytes", kind, len(got)), files)
			}
		}
	}
}

var rePanicSite = regexp.MustCompile(`(?m)^\s+(\S+\.go):\d+`)

func panicSite(stderr string) string {
	for _, m := range rePanicSite.FindAllStringSubmatch(stderr, -1) {
		if strings.Contains(m[1], "gontainer/internal") || strings.Contains(m[1], "/repo/") {
			return filepath.Base(m[1])
		}
	}
	if m := rePanicSite.FindStringSubmatch(stderr); m != nil {
		return filepath.Base(m[1])
	}
	return "unknown"
}

// c12NativeFuzz runs the in-repo fuzz target (driver D5) for a bounded number of executions.
func c12NativeFuzz(c *Ctx, corpus []string) error {
	w := c.W
	dst := filepath.Join(w.Repo, "internal", "verifdrv")
	src := filepath.Join(c.Home, "harness", "inrepo")
	if out, err := exec.Command("rsync", "-a", src+"/", dst+"/").CombinedOutput(); err != nil {
		return fmt.Errorf("copy harness: %v %s", err, out)
	}
	for i, s := range corpus {
		if len(s) < 4096 {
			_ = work.WriteFile(filepath.Join(dst, "testdata", "seeds", fmt.Sprintf("s%04d.yaml", i)), []byte(s))
		}
	}
	execs := c.Pick(200000, 1000000)
	if v := os.Getenv("VERIF_C12_FUZZ"); v != "" && !c.Thorough() {
		execs = 100000
	}
	res := w.Go(dst, false, 3*time.Hour, "test", "-tags", "verif", "-run", "^$", "-fuzz", "FuzzBuild", "-fuzztime", fmt.Sprintf("%dx", execs), ".")
	c.Set("native_fuzz_requested_execs", execs)
	log := res.Stdout + res.Stderr
	// the last progress line tells how many executions ran and how many inputs were interesting
	if m := regexp.MustCompile(`execs: (\d+) .*new interesting: (\d+) \(total: (\d+)\)`).FindAllStringSubmatch(log, -1); len(m) > 0 {
		last := m[len(m)-1]
		var e, ni, tot int
		fmt.Sscan(last[1], &e)
		fmt.Sscan(last[2], &ni)
		fmt.Sscan(last[3], &tot)
		c.Set("native_fuzz_execs", e)
		c.Set("native_fuzz_new_interesting_inputs", ni)
		c.Set("native_fuzz_corpus_total", tot)
		c.Evaluations += e
	}
	if res.Exit != 0 {
		// a crasher: keep the failing input
		files := map[string]string{"fuzz-log.txt": tail(log, 6000)}
		if ms, _ := filepath.Glob(filepath.Join(dst, "testdata", "fuzz", "FuzzBuild", "*")); len(ms) > 0 {
			for _, m := range ms {
				if b, err := os.ReadFile(m); err == nil {
					files["crasher/"+filepath.Base(m)] = string(b)
				}
			}
		}
		if strings.Contains(log, "FAIL") || strings.Contains(log, "panic") {
			site := "fuzz-target"
			if strings.Contains(log, "panic") {
				site = panicSite(log)
			}
			c.Violate("native-fuzz:"+site, "the in-process fuzz target failed:\n"+firstLines(tail(log, 3000), 40), files)
		} else {
			c.Inconclusive("go test -fuzz ended with an error that is not a finding: " + firstLines(tail(log, 600), 6))
		}
	}
	return nil
}

func tail(s string, n int) string {
	if len(s) > n {
		return s[len(s)-n:]
	}
	return s
}
