package mon

import (
	"fmt"
	"go/parser"
	"go/token"
	"math/rand"
	"strings"

	"verif/cfg"
	"verif/gen"
	"verif/probe"
)

func init() { Register("C14", "exploration", checkC14) }

// judgeImportBlock: the same package is imported once, different packages never share a local name.
func judgeImportBlock(c *Ctx, u *probe.Unit) {
	fset := token.NewFileSet()
	f, err := parser.ParseFile(fset, "gen.go", u.Source, parser.ImportsOnly)
	if err != nil {
		c.Violate("import-block-unparsable", fmt.Sprintf("unit %s: %v", u.ID, err), unitFiles(u))
		return
	}
	paths := map[string]string{}
	names := map[string]string{}
	for _, im := range f.Imports {
		p := strings.Trim(im.Path.Value, `"`)
		n := ""
		if im.Name != nil {
			n = im.Name.Name
		}
		if prev, dup := paths[p]; dup {
			c.Violate("package-imported-twice", fmt.Sprintf("unit %s: %q imported as %s and %s", u.ID, p, prev, n), unitFiles(u))
		}
		paths[p] = n
		if n != "" && n != "_" && n != "." {
			if prev, dup := names[n]; dup {
				c.Violate("local-name-shared", fmt.Sprintf("unit %s: %q and %q share the local name %s", u.ID, prev, p, n), unitFiles(u))
			}
			names[n] = p
		}
		c.Add("import_specs_checked", 1)
	}
}

func checkC14(c *Ctx) error {
	c.Rule = "seeded alias tables over the fixture paths with alias names that are string prefixes of other aliases (a/ab/abc, f/fm/fmt, fi/fixt), of referenced paths, and of or equal to the packages the template itself imports (fmt, os, errors, context, reflect, strconv, github.com), x references in constructor, value, type, !value, decorator and function positions x the written forms (bare alias, alias/sub-path, unquoted and quoted full path, \".\"); fixture packages export identical self-identifying symbols, so the package every object, decorator, function and getter type really came from is observed at run time and compared with the reference alias resolver (whole-segment rule); the import block is parsed for duplicates and shared local names. distinct = distinct configuration; non-trivial = >=2 aliases and >=3 package references"
	c.Assumptions = []string{"reference alias resolver engine/ref.Imports (B.4)", "compilation proves the import block lists exactly the used packages"}
	lab, err := probe.NewLab(c.W)
	if err != nil {
		return err
	}
	n := c.Pick(500, 8000)
	var units, stubs []*probe.Unit
	for i := 0; i < n; i++ {
		r := rand.New(rand.NewSource(c.Seed*1000003 + int64(i)))
		o := gen.DefaultOpts()
		o.HostileAlias = i%4 != 0
		o.Scopes = false
		o.NonFinite = false
		// every fourth configuration also refers to the packages the template imports for itself (context, errors, fmt, os,
		// reflect, strconv, the runtime's container): one import each, whoever needs it (the behaviour of those services is not
		// modelled; import block and compilation are what is judged there)
		o.StdPkgs = i%4 == 2
		conf := gen.Behaviour(r, o)
		ops := StdOps(conf, r, false)
		if o.StdPkgs {
			ops = []probe.Op{{Op: "new"}, {Op: "circular"}}
		}
		units = append(units, &probe.Unit{ID: idOf(i), Cfg: conf, Files: []probe.File{{Name: "gontainer.yaml", Content: conf.YAML()}}, Ops: ops})
		if i%3 == 0 {
			// the stub of the same configuration uses far fewer packages: its import block must list exactly those
			stubs = append(stubs, &probe.Unit{ID: idOf(i), Cfg: conf, Files: []probe.File{{Name: "gontainer.yaml", Content: conf.YAML()}}, Stub: true})
		}
	}
	lab.Generate(stubs, 16)
	if err := lab.Compile(stubs); err != nil {
		return err
	}
	for _, u := range stubs {
		if u.Accepted && u.Source != "" {
			judgeImportBlock(c, u)
			c.Add("stub_import_blocks_checked", 1)
		}
		if u.Accepted && !u.Compiled {
			c.Violate("stub-does-not-compile:"+errClass(u.CompileErr), fmt.Sprintf("unit %s (stub): %s", u.ID, firstLines(u.CompileErr, 8)), unitFiles(u))
		}
	}
	err = behaviourUnits(c, lab, units, func(conf *cfg.Config) bool {
		refs := 0
		for _, s := range conf.Services {
			for _, p := range []*string{s.Constructor, s.Value, s.Type} {
				if p != nil && strings.Contains(*p, ".") {
					refs++
				}
			}
			for _, a := range s.Args {
				if a.Kind == "str" && strings.HasPrefix(a.S, "!value") {
					refs++
				}
			}
		}
		refs += len(conf.Decorators) + len(conf.Meta.Functions)
		return len(conf.Meta.Imports) >= 2 && refs >= 3
	}, false)
	if err != nil {
		return err
	}
	for _, u := range units {
		if u.Accepted && u.Source != "" {
			judgeImportBlock(c, u)
		}
		if u.Accepted && !u.Compiled {
			// for C14 a non-compiling import block is a violation in its own right
			c.Violate("does-not-compile:"+errClass(u.CompileErr), fmt.Sprintf("unit %s: %s", u.ID, firstLines(u.CompileErr, 8)), unitFiles(u))
		}
	}
	return nil
}
