#!/usr/bin/env python3
"""Regenerates /verif/MANIFEST.json from the table below (kept next to the checks so the two do not drift)."""
import json, subprocess, sys

CHECKS = {
 # id: (category, level text, technique, level note)
 "C01": ("exploration", "Seeded generator over the quantifier's dimension table (creation method, value/type forms, getter types, scopes, literals incl. non-finite floats, alias tables from the collision space, 1-4 input files) x {normal, --stub}; the Go compiler, gofmt and a linked probe's start-up are the oracle. Held = every accepted configuration generated in this run compiled and initialised.", "generated-program monitoring: real binary -> go build/gofmt -> probe start marker", "trusts the Go toolchain as judge; symbols limited to the fixture universe"),
 "C02": ("exploration", "Each generated configuration is compiled, linked with instrumented fixture packages and executed; the object graph behind every service (constructor, argument order/types/identity, fields before calls, wither replacement, error cases) is compared with a reference container up to instance renaming.", "reference-model monitor over fixture event logs of the executed generated container", "trusts the reference interpreter engine/ref (written from docs) and the fixture recorder"),
 "C04": ("exploration", "Seeded tag/decorator constellations (priorities with ties and extremes, several decorators per tag, all argument forms, 1-4 files) executed against the real runtime; injected slices, decorator order, payload and arguments compared with the reference container.", "reference-model monitor over decorator/tag events of the executed generated container", "trusts engine/ref and the fixture decorators"),
 "C05": ("exploration", "Build-time half: every dependency structure on <=3 services x 5 edge kinds x 4^n scope assignments (13 924 configs; exhaustive in the thorough tier, seeded sample of 3 000 in quick) through the real binary, Scope diagnostics compared with the reference rule. Run-time half: Get/GetInContext/getter/GetTaggedBy histories on generated containers, instance identities compared with the reference identity model.", "exhaustive small-graph enumeration + identity monitor over instance serials across Get/GetInContext histories", "trusts engine/ref scope rule and identity model"),
 "C13": ("exploration", "Full truth table getter x type form x must_getter x default_must_getter x meta names: reflected method set and signature strings of the generated type compared with runtime API (by reflection) ∪ expected getters; getters called reflectively; plus the collision space (every method/field of the embedded container, Must/InContext, equal getters) with near misses.", "reflection-based API monitor + reference truth table on executed generated containers", "trusts reflect's method sets; explicit must_getter:false without getter is not judged for acceptance"),
 "C14": ("exploration", "Seeded hostile alias tables x six reference positions x written forms; the package each object/decorator/function/getter type really came from is observed at run time through self-identifying fixtures and compared with the reference whole-segment resolver; import block checked for duplicates and shared names.", "run-time provenance monitor (self-identifying fixture packages) + import block parse", "trusts engine/ref.Imports"),
 "C19": ("other", "Replays build -> regenerate -> rebuild -> regenerate for 3 generations with the real binary and compares bytes modulo the version line; a fixpoint over one fixed input needs nothing beyond executing it.", "fixpoint replay on the real binary, byte comparison", "trusts the Go toolchain and the Makefile's self-compile arguments"),
}
NOT_YET = "check under construction in this session (monitor not built yet); not a claim that the technique cannot apply"

props=[json.loads(l)['id'] for l in open('/verif/properties.jsonl')]
old=json.load(open('/verif/MANIFEST.json'))
m={"version":1,"setup_cmd":"./setup.sh",
 "hooks":{"guard":"verif","enable":"every build of the scratch copy of /repo passes -tags verif; no source hooks exist (observation happens at the CLI boundary and inside instrumented fixture packages that the generated code imports)","baseline_off_cmd":"cd /repo && go test -vet=off -count=1 ./...","source_commits":[],"add_only":True},
 "engines":[{"name":"vcheck","path":"engine/","serves_properties":sorted(CHECKS),"kind_free_text":"Go runtime-monitoring engine: drivers for the real gontainer binary, generated-program probes over an instrumented fixture universe (fixtures/), reference-model oracles (engine/ref)"}],
 "checks":[],"not_applicable":[],
 "notes":"exit codes: 0 held (possibly with KNOWN-FINDING lines), 1 VIOLATION, 2 INCONCLUSIVE. VERIF_SEED selects the case list; VERIF_REPO overrides /repo (used to validate monitors against mutated copies)."}
for p in props:
    if p in CHECKS:
        cat,text,tech,note=CHECKS[p]
        m["checks"].append({"property_id":p,"quick_cmd":f"./check.sh {p} quick","thorough_cmd":f"./check.sh {p} thorough","evidence_file":f"/verif/evidence/{p}.json","replay_cmd_template":"cat {path}/WHAT.txt","engine":"vcheck","level_claimed":{"category":cat,"text":text,"design_ref":"DESIGN.md section 3, "+p},"level_note":note,"technique":tech})
    else:
        m["not_applicable"].append({"property_id":p,"reason":NOT_YET})
json.dump(m,open('/verif/MANIFEST.json','w'),indent=1)
print("checks:",len(m["checks"]),"not_applicable:",len(m["not_applicable"]))
