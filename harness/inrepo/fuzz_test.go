//go:build verif

// Package verifdrv is copied into a scratch copy of the repository (internal/verifdrv) by the
// verification machinery; it drives the build command in-process for native fuzzing (C12).
package verifdrv

import (
	"bytes"
	"go/parser"
	"go/token"
	"io"
	"os"
	"path/filepath"
	"strings"
	"testing"
	"time"

	"github.com/gontainer/gontainer/internal/cmd"
)

// many references may mean very many elementary cycles: the property excludes that (cost proviso)
func tooManyRefs(files ...[]byte) bool {
	n := 0
	for _, f := range files {
		n += bytes.Count(f, []byte("@")) + bytes.Count(f, []byte("!tagged")) + bytes.Count(f, []byte("%"))/2
	}
	return n > 40
}

func FuzzBuild(f *testing.F) {
	seeds, _ := filepath.Glob("testdata/seeds/*.yaml")
	for i, s := range seeds {
		b, err := os.ReadFile(s)
		if err != nil {
			continue
		}
		var b2 []byte
		if i+1 < len(seeds) {
			b2, _ = os.ReadFile(seeds[i+1])
		}
		f.Add(byte(i), b, b2)
	}
	f.Add(byte(0), []byte("services:\n  a: {value: X}\n"), []byte(""))
	f.Fuzz(func(t *testing.T, flags byte, f1 []byte, f2 []byte) {
		if len(f1) > 4096 || len(f2) > 4096 || tooManyRefs(f1, f2) {
			t.Skip()
		}
		dir := t.TempDir()
		_ = os.WriteFile(filepath.Join(dir, "a.yaml"), f1, 0o644)
		args := []string{"-i", filepath.Join(dir, "a.yaml")}
		if flags&1 != 0 {
			_ = os.WriteFile(filepath.Join(dir, "b.yaml"), f2, 0o644)
			args = []string{"-i", filepath.Join(dir, "*.yaml")}
		}
		out := filepath.Join(dir, "out.go")
		const sentinel = "// sentinel\n"
		pre := flags&2 != 0
		if pre {
			_ = os.WriteFile(out, []byte(sentinel), 0o644)
		}
		args = append(args, "-o", out)
		if flags&4 != 0 {
			args = append(args, "--stub")
		}
		if flags&8 != 0 {
			args = append(args, "--ignore-missing-params")
		}
		if flags&16 != 0 {
			args = append(args, "--ignore-missing-services")
		}
		if flags&32 != 0 {
			args = append(args, "--quiet")
		}
		c := cmd.NewBuildCmd("1.2.3", "fuzz")
		c.SetArgs(args)
		var so bytes.Buffer
		c.SetOut(&so)
		c.SetErr(io.Discard)
		t0 := time.Now()
		err := c.Execute()
		if d := time.Since(t0); d > 20*time.Second {
			t.Fatalf("run took %s (normal: well under 10ms)", d)
		}
		if flags&32 != 0 && so.Len() != 0 {
			t.Fatalf("--quiet printed %q", so.String())
		}
		b, rerr := os.ReadFile(out)
		if err == nil {
			if rerr != nil || len(b) == 0 {
				t.Fatalf("success without output file")
			}
			if _, perr := parser.ParseFile(token.NewFileSet(), "out.go", b, parser.AllErrors); perr != nil {
				t.Fatalf("success but output is not Go: %v", perr)
			}
			if strings.Contains(so.String(), "[⨉]") {
				t.Fatalf("success but the report shows a failing step")
			}
		} else {
			if pre && (rerr != nil || string(b) != sentinel) {
				t.Fatalf("failing run changed the -o file")
			}
			if !pre && rerr == nil {
				t.Fatalf("failing run created the -o file")
			}
			if flags&32 == 0 && !strings.Contains(so.String(), "Errors:") {
				t.Fatalf("failing run without an error list: %q", so.String())
			}
		}
	})
}
