package ref

import (
	"strconv"
	"strings"
)

// SemVer is MAJOR.MINOR.PATCH[-prerelease][+build] per semver.org (no leading v, no leading zeros).
type SemVer struct {
	Major, Minor, Patch int
	OK                  bool
}

func numOK(s string) bool {
	if s == "" {
		return false
	}
	for _, c := range s {
		if c < '0' || c > '9' {
			return false
		}
	}
	return s == "0" || s[0] != '0'
}

func identsOK(s string, numericNoLeadingZero bool) bool {
	if s == "" {
		return false
	}
	for _, id := range strings.Split(s, ".") {
		if id == "" {
			return false
		}
		allDigits := true
		for _, c := range id {
			switch {
			case c >= '0' && c <= '9':
			case (c >= 'a' && c <= 'z') || (c >= 'A' && c <= 'Z') || c == '-':
				allDigits = false
			default:
				return false
			}
		}
		if numericNoLeadingZero && allDigits && len(id) > 1 && id[0] == '0' {
			return false
		}
	}
	return true
}

func ParseSemVer(s string) SemVer {
	core := s
	if i := strings.IndexByte(core, '+'); i >= 0 {
		if !identsOK(core[i+1:], false) {
			return SemVer{}
		}
		core = core[:i]
	}
	if i := strings.IndexByte(core, '-'); i >= 0 {
		if !identsOK(core[i+1:], true) {
			return SemVer{}
		}
		core = core[:i]
	}
	p := strings.Split(core, ".")
	if len(p) != 3 || !numOK(p[0]) || !numOK(p[1]) || !numOK(p[2]) {
		return SemVer{}
	}
	a, _ := strconv.Atoi(p[0])
	b, _ := strconv.Atoi(p[1])
	c, _ := strconv.Atoi(p[2])
	return SemVer{a, b, c, true}
}

// VersionGate returns the expected verdict for build version B (as passed to the linker) and
// declared version V (the YAML string): "accept", "reject" (gate) or "parse-error".
func VersionGate(B string, V *string) string {
	if V != nil {
		if !ParseSemVer(*V).OK {
			return "parse-error"
		}
	}
	b := B
	if strings.HasPrefix(b, "v") && ParseSemVer(b[1:]).OK {
		b = b[1:]
	}
	bv := ParseSemVer(b)
	if !bv.OK || V == nil {
		return "accept"
	}
	v := ParseSemVer(*V)
	if bv.Major == 0 {
		if v.Major == 0 && v.Minor == bv.Minor {
			return "accept"
		}
		return "reject"
	}
	if v.Major == bv.Major && v.Minor <= bv.Minor {
		return "accept"
	}
	return "reject"
}
