package work

import (
	"bytes"
	"context"
	"errors"
	"fmt"
	"os"
	"os/exec"
	"syscall"
	"time"
	"unsafe"
)

// RunPty runs the command with its standard output on a pseudo-terminal of the given size (the slave side; this process reads the
// master side). Standard error is captured in a file as in Run. ok=false: no pseudo-terminal could be opened here.
func RunPty(bin, cwd string, env []string, timeout time.Duration, cols, rows int, args ...string) (r Result, ok bool) {
	m, err := os.OpenFile("/dev/ptmx", os.O_RDWR|syscall.O_NOCTTY, 0)
	if err != nil {
		return Result{}, false
	}
	defer m.Close()
	ioctl := func(fd uintptr, req uintptr, p unsafe.Pointer) error {
		if _, _, e := syscall.Syscall(syscall.SYS_IOCTL, fd, req, uintptr(p)); e != 0 {
			return e
		}
		return nil
	}
	var n uint32
	var unlock int32
	if ioctl(m.Fd(), syscall.TIOCGPTN, unsafe.Pointer(&n)) != nil || ioctl(m.Fd(), syscall.TIOCSPTLCK, unsafe.Pointer(&unlock)) != nil {
		return Result{}, false
	}
	ws := struct{ Row, Col, X, Y uint16 }{uint16(rows), uint16(cols), 0, 0}
	if ioctl(m.Fd(), syscall.TIOCSWINSZ, unsafe.Pointer(&ws)) != nil {
		return Result{}, false
	}
	s, err := os.OpenFile(fmt.Sprintf("/dev/pts/%d", n), os.O_RDWR|syscall.O_NOCTTY, 0)
	if err != nil {
		return Result{}, false
	}
	se, err := os.CreateTemp("", "vrun-err-")
	if err != nil {
		s.Close()
		return Result{}, false
	}
	defer func() { se.Close(); os.Remove(se.Name()) }()
	ctx, cancel := context.WithTimeout(context.Background(), timeout)
	defer cancel()
	cmd := exec.CommandContext(ctx, bin, args...)
	cmd.Dir = cwd
	cmd.Env = env
	cmd.Stdout = s
	cmd.Stderr = se
	cmd.WaitDelay = 30 * time.Second
	var out bytes.Buffer
	done := make(chan struct{})
	go func() {
		buf := make([]byte, 4096)
		for {
			k, err := m.Read(buf)
			out.Write(buf[:k])
			if err != nil {
				close(done)
				return
			}
		}
	}()
	t0 := time.Now()
	err = cmd.Run()
	s.Close() // the last slave descriptor: the master now reads EIO after the buffered output
	select {
	case <-done:
	case <-time.After(10 * time.Second):
	}
	be, _ := os.ReadFile(se.Name())
	r = Result{Stdout: out.String(), Stderr: string(be), Dur: time.Since(t0)}
	if ctx.Err() == context.DeadlineExceeded {
		r.TimedOut = true
	}
	if err != nil {
		var ee *exec.ExitError
		if errors.As(err, &ee) {
			r.Exit = ee.ExitCode()
			if st, isWS := ee.Sys().(syscall.WaitStatus); isWS && st.Signaled() {
				r.Signal = st.Signal().String()
				r.Exit = 128 + int(st.Signal())
			}
		} else {
			r.Exit = -1
			r.Stderr += "\nexec error: " + err.Error()
		}
	}
	return r, true
}
