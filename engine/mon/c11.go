package mon

import (
	"strconv"
	"fmt"
	"math/rand"
	"path/filepath"
	"sort"
	"strings"

	"verif/cfg"
	"verif/cli"
	"verif/ref"
	"verif/work"
)

func init() { Register("C11", "exploration", checkC11) }

var c11Base = []string{"a", "Z", "0", ".", "-", "_", "/", `"`, "*", "&", "{", "}", " "}

type c11pos struct {
	name   string
	extra  string                    // 14th, position-specific symbol
	prefix string                    // fixed prefix of every candidate (argument forms)
	valid  func(s string) bool       // reference recogniser
	slot   func(c *cfg.Config, i int, s string) (key string) // puts candidate s into the config, returns the key diagnostics may use
	single bool                      // one candidate per configuration (meta scalars)
	size   int                       // candidates per configuration (0: default 400)
}

func svcSlot(i int) string { return fmt.Sprintf("k%04d", i) }

func c11Positions() []c11pos {
	newSvc := func(c *cfg.Config, i int) *cfg.Service {
		c.Services = append(c.Services, cfg.Service{Name: svcSlot(i), Value: cfg.P("a")})
		return &c.Services[len(c.Services)-1]
	}
	known := func(fn string) bool { return fn == "env" || fn == "envInt" || fn == "todo" }
	argValid := func(s string) bool { ok, _ := ref.IsArgument(s, known); return ok }
	return []c11pos{
		{name: "parameter-name", extra: "%", valid: ref.IsYamlToken, slot: func(c *cfg.Config, i int, s string) string {
			c.Params = append(c.Params, cfg.KV{K: s, V: cfg.Int(int64(i))})
			return s
		}},
		{name: "service-name", extra: "@", valid: ref.IsYamlToken, slot: func(c *cfg.Config, i int, s string) string {
			c.Services = append(c.Services, cfg.Service{Name: s, Value: cfg.P("a")})
			return s
		}},
		{name: "tag-name", extra: "!", valid: ref.IsYamlToken, slot: func(c *cfg.Config, i int, s string) string {
			newSvc(c, i).Tags = []cfg.Tag{{Name: s}}
			return svcSlot(i)
		}},
		{name: "alias-name", extra: "1", valid: ref.IsYamlToken, slot: func(c *cfg.Config, i int, s string) string {
			c.Meta.Imports = append(c.Meta.Imports, cfg.KS{K: s, V: "some/path"})
			return s
		}},
		{name: "import-path", extra: "1", valid: ref.IsImport, slot: func(c *cfg.Config, i int, s string) string {
			c.Meta.Imports = append(c.Meta.Imports, cfg.KS{K: svcSlot(i), V: s})
			return s
		}},
		{name: "function-name", extra: "(", valid: ref.IsGoToken, slot: func(c *cfg.Config, i int, s string) string {
			c.Meta.Functions = append(c.Meta.Functions, cfg.KS{K: s, V: "some.Func"})
			return s
		}},
		{name: "go-function", extra: "(", valid: ref.IsGoFunc, slot: func(c *cfg.Config, i int, s string) string {
			c.Meta.Functions = append(c.Meta.Functions, cfg.KS{K: svcSlot(i), V: s})
			return s
		}},
		{name: "go-function-of-builtin-name", extra: "(", size: 3, valid: ref.IsGoFunc, slot: func(c *cfg.Config, i int, s string) string {
			// re-registering env / envInt / todo is allowed; the Go function given for them is checked like any other
			c.Meta.Functions = append(c.Meta.Functions, cfg.KS{K: []string{"env", "envInt", "todo"}[i%3], V: s})
			return s
		}},
		{name: "meta-pkg", extra: "1", single: true, valid: ref.IsGoToken, slot: func(c *cfg.Config, i int, s string) string { c.Meta.Pkg = cfg.P(s); return s }},
		{name: "container-type", extra: "1", single: true, valid: ref.IsGoToken, slot: func(c *cfg.Config, i int, s string) string { c.Meta.ContainerType = cfg.P(s); return s }},
		{name: "container-constructor", extra: "1", single: true, valid: ref.IsGoToken, slot: func(c *cfg.Config, i int, s string) string { c.Meta.ContainerConstructor = cfg.P(s); return s }},
		{name: "getter", extra: "t", valid: func(s string) bool { return ref.IsGetter(s, map[string]bool{}) }, slot: func(c *cfg.Config, i int, s string) string {
			newSvc(c, i).Getter = cfg.P(s)
			return svcSlot(i)
		}},
		{name: "service-type", extra: "1", valid: ref.IsServiceType, slot: func(c *cfg.Config, i int, s string) string {
			newSvc(c, i).Type = cfg.P(s)
			return svcSlot(i)
		}},
		{name: "service-value", extra: "1", valid: ref.IsServiceValue, slot: func(c *cfg.Config, i int, s string) string {
			newSvc(c, i).Value = cfg.P(s)
			return svcSlot(i)
		}},
		{name: "service-constructor", extra: "(", valid: ref.IsGoFunc, slot: func(c *cfg.Config, i int, s string) string {
			sv := newSvc(c, i)
			sv.Value = nil
			sv.Constructor = cfg.P(s)
			return svcSlot(i)
		}},
		{name: "call-method", extra: "(", valid: ref.IsGoToken, slot: func(c *cfg.Config, i int, s string) string {
			newSvc(c, i).Calls = []cfg.Call{{Method: s, Args: []cfg.Val{}}}
			return svcSlot(i)
		}},
		{name: "field-name", extra: "1", valid: ref.IsGoToken, slot: func(c *cfg.Config, i int, s string) string {
			newSvc(c, i).Fields = []cfg.KV{{K: s, V: cfg.Int(1)}}
			return svcSlot(i)
		}},
		{name: "decorator-tag", extra: "!", valid: ref.IsDecoratorTag, slot: func(c *cfg.Config, i int, s string) string {
			c.Decorators = append(c.Decorators, cfg.Decorator{Tag: s, Decorator: fmt.Sprintf("some.Dec%d", i)})
			return fmt.Sprintf("some.Dec%d", i)
		}},
		{name: "decorator-method", extra: "(", valid: ref.IsGoFunc, slot: func(c *cfg.Config, i int, s string) string {
			c.Decorators = append(c.Decorators, cfg.Decorator{Tag: fmt.Sprintf("t%d", i), Decorator: s})
			return s
		}},
		{name: "argument-service", extra: "@", prefix: "@", valid: argValid, slot: func(c *cfg.Config, i int, s string) string {
			sv := newSvc(c, i)
			sv.Value, sv.Constructor, sv.Args = nil, cfg.P("a"), []cfg.Val{cfg.Str(s)}
			textTwin(c, i, s)
			return svcSlot(i)
		}},
		{name: "argument-tagged", extra: "!", prefix: "!tagged ", valid: argValid, slot: func(c *cfg.Config, i int, s string) string {
			newSvc(c, i).Fields = []cfg.KV{{K: "F", V: cfg.Str(s)}}
			textTwin(c, i, s)
			return svcSlot(i)
		}},
		{name: "argument-value", extra: "1", prefix: "!value ", valid: argValid, slot: func(c *cfg.Config, i int, s string) string {
			newSvc(c, i).Calls = []cfg.Call{{Method: "M", Args: []cfg.Val{cfg.Str(s)}}}
			textTwin(c, i, s)
			return svcSlot(i)
		}},
	}
}

// textTwin declares, for every second argument candidate, a parameter whose value is the same text. As a parameter the text is a plain
// string (always valid); what the argument of the same spelling means is judged on its own.
func textTwin(c *cfg.Config, i int, s string) {
	if i%2 == 0 && !strings.Contains(s, "%") {
		c.Params = append(c.Params, cfg.KV{K: fmt.Sprintf("tw%d", i), V: cfg.Str(s)})
	}
}

func stringsOver(alpha []string, maxLen int) []string {
	var out []string
	var rec func(p string, d int)
	rec = func(p string, d int) {
		out = append(out, p)
		if d == maxLen {
			return
		}
		for _, s := range alpha {
			rec(p+s, d+1)
		}
	}
	rec("", 0)
	return out
}

// namedIn: does a diagnostic name the slot's key or the candidate string itself?
func namedIn(run *cli.Run, keys ...string) (bool, string) {
	for _, d := range run.Rep.List {
		for _, n := range cli.Names(d) {
			for _, k := range keys {
				if n == k {
					return true, d
				}
			}
		}
	}
	return false, ""
}

func checkC11(c *Ctx) error {
	maxLen := c.Pick(3, 4)
	c.Rule = fmt.Sprintf("(1) exhaustive: every string of length <=%d over a 14-symbol alphabet {a Z 0 . - _ / \" * & { } space + one position-specific symbol} in 21 grammar positions (parameter/service/tag/alias names, import path, function name and Go function, meta pkg/type/constructor, getter, service type/value/constructor, call method, field name, decorator tag/method, and the @ / !tagged / !value argument forms), batched 400 candidates per configuration as separate keys: the set of candidates named by diagnostics must equal the set the hand-written reference recognisers reject, and the batch restricted to predicted-valid candidates must be accepted; (2) rule table: creation-method combinations, arguments without constructor, duplicate tags, scope keywords, call and tag shapes, non-primitive arguments, todo exemption, reserved/Must/InContext getters; (3) k-subsets (k<=5) of simultaneous independent violations: every offending key must be named in one run. distinct = distinct (position, string) or rule case; non-trivial = all counted (each string is its own case)", maxLen)
	c.Assumptions = []string{"reference recognisers engine/ref/grammar.go (written from docs/*.md and the comments of the grammar constants)", "YAML-shape errors (call/tag/scope node kinds) are reported by the YAML parser without a key: only rejection is judged there", "alphabets avoid letters that spell Go keywords"}
	w := c.W
	type batch struct {
		pos   c11pos
		cands []string
	}
	var batches []batch
	for _, p := range c11Positions() {
		alpha := append(append([]string{}, c11Base...), p.extra)
		all := stringsOver(alpha, maxLen)
		for i := range all {
			all[i] = p.prefix + all[i]
		}
		// single-edit mutations of longer valid forms reach beyond the exhaustive length
		if !p.single {
			seen := map[string]bool{}
			for _, x := range all {
				seen[x] = true
			}
			for _, seed := range c11Seeds[p.name] {
				for _, m := range mutations(seed, alpha) {
					if !seen[m] {
						seen[m] = true
						all = append(all, m)
					}
				}
			}
		}
		size := 400
		if p.size > 0 {
			size = p.size
		}
		if p.single {
			size = 1
		}
		if p.single && !c.Thorough() {
			// one run per candidate: quick runs all strings of length <=2 and a seeded sample of the rest
			r := rand.New(rand.NewSource(c.Seed))
			var keep []string
			for _, s := range all {
				if len(s) <= 2 || r.Intn(8) == 0 {
					keep = append(keep, s)
				}
			}
			all = keep
		}
		for i := 0; i < len(all); i += size {
			j := i + size
			if j > len(all) {
				j = len(all)
			}
			batches = append(batches, batch{p, all[i:j]})
		}
		c.Add("strings:"+p.name, len(all))
	}
	c.Set("batches", len(batches))
	Par(len(batches), 16, func(bi int) {
		b := batches[bi]
		build := func(only func(s string) bool) (*cfg.Config, []string) {
			conf := &cfg.Config{}
			var keys []string
			for i, s := range b.cands {
				if only != nil && !only(s) {
					keys = append(keys, "")
					continue
				}
				keys = append(keys, b.pos.slot(conf, i, s))
			}
			if len(conf.Services) == 0 {
				conf.Services = append(conf.Services, cfg.Service{Name: "anchor", Value: cfg.P("a")})
			}
			return conf, keys
		}
		conf, keys := build(nil)
		dir := w.TempDir("c11")
		yaml := conf.YAML()
		_ = work.WriteFile(filepath.Join(dir, "in.yaml"), []byte(yaml))
		out := filepath.Join(dir, "out.go")
		run := cli.Do(w, "", nil, dir, out, "build", "-i", "in.yaml", "-o", out, "--ignore-missing-params", "--ignore-missing-services")
		files := map[string]string{"input/in.yaml": yaml, "stdout.txt": firstLines(run.Res.Stdout, 80), "position.txt": b.pos.name}
		for _, br := range run.Contract() {
			c.Side("C10,C12", "cli-contract:"+sigWords(br), br, files)
		}
		top := run.Rep.FailingTop()
		compileStage := top == nil || top.Name == "Compile"
		if top != nil && top.Name == "Read config" {
			c.Violate("batch-unreadable:"+b.pos.name, fmt.Sprintf("position %s: the batch could not be read (harness or YAML layer): %v", b.pos.name, head(run.Rep.List, 2)), files)
			return
		}
		anyInvalid := false
		for i, s := range b.cands {
			valid := b.pos.valid(s)
			c.Eval(b.pos.name+"|"+s, true)
			if !valid {
				anyInvalid = true
			}
			if !compileStage {
				continue
			}
			named, diag := namedIn(&run, keys[i], s)
			if !valid && !named {
				c.Violate("invalid-accepted:"+b.pos.name, fmt.Sprintf("position %s: %q is outside the grammar but no diagnostic names it (key %q)", b.pos.name, s, keys[i]), map[string]string{"candidate.txt": s, "position.txt": b.pos.name, "input/in.yaml": yaml})
			}
			if valid && named {
				c.Violate("valid-rejected:"+b.pos.name, fmt.Sprintf("position %s: %q is inside the grammar but is reported: %s", b.pos.name, s, diag), map[string]string{"candidate.txt": s, "position.txt": b.pos.name})
			}
		}
		if !compileStage && anyInvalid {
			c.Violate("invalid-batch-passed-compile:"+b.pos.name, fmt.Sprintf("position %s: the batch contains strings outside the grammar but failed only in %q", b.pos.name, top.Name), files)
		}
		// the predicted-valid subset alone must be accepted
		conf2, _ := build(b.pos.valid)
		dir2 := w.TempDir("c11v")
		yaml2 := conf2.YAML()
		_ = work.WriteFile(filepath.Join(dir2, "in.yaml"), []byte(yaml2))
		out2 := filepath.Join(dir2, "out.go")
		run2 := cli.Do(w, "", nil, dir2, out2, "build", "-i", "in.yaml", "-o", out2, "--ignore-missing-params", "--ignore-missing-services")
		if run2.Res.Exit != 0 {
			c.Violate("valid-subset-rejected:"+b.pos.name, fmt.Sprintf("position %s: the candidates inside the grammar are rejected together: %v", b.pos.name, head(run2.Rep.List, 4)), map[string]string{"input/in.yaml": yaml2, "stdout.txt": firstLines(run2.Res.Stdout, 60)})
		}
		c.Add("batches_run", 1)
		if bi == 3 {
			var inv []string
			for _, s := range b.cands {
				if !b.pos.valid(s) && len(inv) < 8 {
					inv = append(inv, s)
				}
			}
			c.Sample(map[string]any{"position": b.pos.name, "candidates": len(b.cands), "some_invalid_candidates": inv, "diagnostics": head(run.Rep.List, 5)})
		}
	})
	c11Rules(c)
	return nil
}

type c11rule struct {
	name   string
	yaml2  string // a second input file, read after the first (empty: none)
	yaml   string
	accept bool
	names  []string // keys that must be named when rejected ("" entries ignored)
}

func c11Rules(c *Ctx) {
	w := c.W
	var rules []c11rule
	add := func(name, yaml string, accept bool, names ...string) {
		rules = append(rules, c11rule{name: name, yaml: yaml, accept: accept, names: names})
	}
	// creation-method table
	for m := 0; m < 16; m++ {
		ctor, val, typ, args := m&1 != 0, m&2 != 0, m&4 != 0, m&8 != 0
		var sb strings.Builder
		sb.WriteString("services:\n  svc:\n")
		if ctor {
			sb.WriteString("    constructor: \"New\"\n")
		}
		if val {
			sb.WriteString("    value: \"Val\"\n")
		}
		if typ {
			sb.WriteString("    type: \"*T\"\n")
		}
		if args {
			sb.WriteString("    arguments: [1]\n")
		}
		if !ctor && !val && !typ && !args {
			sb.Reset()
			sb.WriteString("services:\n  svc: {}\n")
		}
		ok := (ctor || val || typ) && !(ctor && val) && (!args || ctor)
		add(fmt.Sprintf("creation:ctor=%v,value=%v,type=%v,args=%v", ctor, val, typ, args), sb.String(), ok, "svc")
	}
	add("empty-arguments-without-constructor", "services:\n  svc:\n    value: \"V\"\n    arguments: []\n", true)
	add("duplicate-tags", "services:\n  svc:\n    value: \"V\"\n    tags: [\"t\", {\"name\": \"t\", \"priority\": 2}]\n", false, "svc")
	// document markers: one document with explicit markers, and a second document with nothing in it, leave the grammar verdict as it is
	{
		body := "services:\n  a:\n    value: \"V\"\n    tags: [\"t\", {\"name\": \"u\", \"priority\": 2}]\n    calls: [[\"M\"]]\ndecorators:\n  - tag: \"t\"\n    decorator: \"Dec\"\n"
		bad := "services:\n  svc:\n    value: \"V\"\n    tags: [\"t\", \"t\"]\n"
		for k, f := range []func(string) string{
			func(b string) string { return "---\n" + b },
			func(b string) string { return b + "...\n" },
			func(b string) string { return "--- # one\n" + b + "...\n" },
			func(b string) string { return b + "---\n" },
			func(b string) string { return "---\n" + b + "---\n# nothing\n" },
			func(b string) string { return b + "---\n...\n" },
		} {
			add(fmt.Sprintf("document-markers-%d:valid", k), f(body), true)
			add(fmt.Sprintf("document-markers-%d:duplicate-tag", k), f(bad), false, "svc")
		}
	}
	add("same-tag-on-two-services", "services:\n  a:\n    value: \"V\"\n    tags: [\"t\"]\n  b:\n    value: \"V\"\n    tags: [\"t\"]\n", true)
	for _, sc := range []string{"shared", "contextual", "non_shared"} {
		add("scope:"+sc, "services:\n  svc:\n    value: \"V\"\n    scope: \""+sc+"\"\n", true)
	}
	for _, sc := range []string{`"Shared"`, `""`, `"singleton"`, `"non-shared"`, "5", "[shared]", `"shared "`} {
		add("scope-invalid:"+sc, "services:\n  svc:\n    value: \"V\"\n    scope: "+sc+"\n", false)
	}
	add("scope-null-is-absent", "services:\n  svc:\n    value: \"V\"\n    scope: ~\n", true)
	calls := []struct {
		y  string
		ok bool
	}{{`[["M"]]`, true}, {`[["M", []]]`, true}, {`[["M", [1, "x"], true]]`, true}, {`[["M", [], false]]`, true}, {`[[]]`, false}, {`[["M", [], true, 1]]`, false}, {`[[5, []]]`, false},
		{`[["M", "notalist"]]`, false}, {`[["M", [], "yes"]]`, false}, {`["M"]`, false}, {`[["M", [[1]]]]`, false}, {`[["M", [{a: 1}]]]`, false}, {`[["1M", []]]`, false}, {`[["M", [null, 1.5, true]]]`, true}}
	for _, cl := range calls {
		add("call-shape:"+cl.y, "services:\n  svc:\n    value: \"V\"\n    calls: "+cl.y+"\n", cl.ok)
	}
	tags := []struct {
		y  string
		ok bool
	}{{`["t"]`, true}, {`[{"name": "t"}]`, true}, {`[{"name": "t", "priority": -3}]`, true}, {`[{"name": "t", "priority": "3"}]`, false}, {`[{"priority": 3}]`, false}, {`[{"name": 5}]`, false}, {`[5]`, false}, {`[["t"]]`, false}, {`[{"name": "t", "priority": 1.5}]`, false}, {`[{"name": "bad tag"}]`, false}}
	for _, tg := range tags {
		add("tag-shape:"+tg.y, "services:\n  svc:\n    value: \"V\"\n    tags: "+tg.y+"\n", tg.ok)
	}
	add("argument-list", "services:\n  svc:\n    constructor: \"New\"\n    arguments: [[1, 2]]\n", false, "svc")
	add("argument-map", "services:\n  svc:\n    constructor: \"New\"\n    arguments: [{a: 1}]\n", false, "svc")
	add("field-list", "services:\n  svc:\n    value: \"V\"\n    fields: {F: [1]}\n", false, "svc")
	add("parameter-list", "parameters:\n  p: [1, 2]\nservices:\n  svc:\n    value: \"V\"\n", false, "p")
	add("parameter-map", "parameters:\n  p: {a: 1}\nservices:\n  svc:\n    value: \"V\"\n", false, "p")
	add("decorator-argument-list", "services:\n  svc:\n    value: \"V\"\ndecorators:\n  - tag: \"t\"\n    decorator: \"Dec\"\n    arguments: [[1]]\n", false)
	add("primitive-arguments", "services:\n  svc:\n    constructor: \"New\"\n    arguments: [1, -2, 1.5, true, ~, \"s\", 18446744073709551615]\n", true)
	add("todo-exempt", "services:\n  svc:\n    todo: true\n    getter: \"1 bad\"\n    type: \"?\"\n    value: \"(\"\n    constructor: \")\"\n    arguments: [[1]]\n    tags: [\"bad tag\", \"bad tag\"]\n    fields: {\"1\": [1]}\n", true)
	// todo twins: every attribute rule is switched off for a todo service, also rules that compare services with each other
	add("todo-exempt:same-getter-as-real-service", "services:\n  real:\n    value: \"V\"\n    getter: \"GetIt\"\n  later:\n    todo: true\n    getter: \"GetIt\"\n", true)
	add("todo-exempt:same-getter-on-two-todo-services", "services:\n  a:\n    todo: true\n    getter: \"GetIt\"\n  b:\n    todo: true\n    getter: \"GetIt\"\n  c:\n    value: \"V\"\n", true)
	add("todo-exempt:reserved-getter", "services:\n  svc:\n    todo: true\n    getter: \"GetParam\"\n", true)
	add("todo-exempt:must-prefix-getter", "services:\n  svc:\n    todo: true\n    getter: \"MustGetInContext\"\n", true)
	add("todo-exempt:must-getter-without-getter", "services:\n  svc:\n    todo: true\n    must_getter: true\n", true)
	add("todo-exempt:constructor-and-value", "services:\n  svc:\n    todo: true\n    constructor: \"New\"\n    value: \"V\"\n", true)
	add("todo-exempt:arguments-without-constructor", "services:\n  svc:\n    todo: true\n    arguments: [1, \"@nope\", \"%unclosed\"]\n", true)
	add("todo-exempt:invalid-call-and-field", "services:\n  svc:\n    todo: true\n    calls: [[\"bad-method\", [[1]]]]\n    fields: {\"bad-field\": [1]}\n", true)
	add("todo-exempt:nothing-else", "services:\n  svc:\n    todo: true\n", true)
	add("todo-false-not-exempt", "services:\n  svc:\n    todo: false\n    getter: \"1 bad\"\n    value: \"V\"\n", false, "svc")
	add("todo-name-still-checked", "services:\n  \"bad name\":\n    todo: true\n", false, "bad name")
	add("getter-must-prefix", "services:\n  svc:\n    value: \"V\"\n    getter: \"MustGet\"\n", false, "svc")
	// the whole family: Must followed by anything (nothing, lower case, upper case, digit, underscore, a word), anything followed by
	// InContext; look-alikes stay legal
	for _, x := range []string{"", "a", "A", "0", "_", "ang", "ard", "er", "GetX", "_x", "1", "x1", "erRoll", "InContext"} {
		add("getter-must-prefix:Must"+x, "services:\n  svc:\n    value: \"V\"\n    getter: \"Must"+x+"\"\n", false, "svc")
	}
	for _, x := range []string{"a", "A", "Get", "x_", "X0", "get", "Muster"} {
		add("getter-incontext-suffix:"+x+"InContext", "services:\n  svc:\n    value: \"V\"\n    getter: \""+x+"InContext\"\n", false, "svc")
	}
	for _, x := range []string{"mustGet", "MUSTGet", "Mus", "Mustx"[:3] + "T", "muster", "GetIncontext", "InContextX", "Incontext", "GetInContext2", "GetInContexts", "inContext", "MusT", "Mmust", "AMust"} {
		add("getter-look-alike:"+x, "services:\n  svc:\n    value: \"V\"\n    getter: \""+x+"\"\n", true)
	}
	// white space between the keyword of a special argument form and its operand is any white space (the grammar says \s+)
	for k, ws := range []string{"\t", "\t\t", " \t ", "\n", "\r\n", "  "} {
		q := func(x string) string { return strconv.Quote(x) }
		add(fmt.Sprintf("value-after-whitespace-%d:valid", k), "services:\n  svc:\n    constructor: \"New\"\n    arguments: ["+q("!value"+ws+"MyVar")+", "+q("!value"+ws+"&pkg.S{}")+"]\n", true)
		add(fmt.Sprintf("value-after-whitespace-%d:invalid", k), "services:\n  svc:\n    constructor: \"New\"\n    arguments: ["+q("!value"+ws+"MyVar()")+"]\n", false, "svc")
		add(fmt.Sprintf("value-after-whitespace-%d:invalid-field", k), "services:\n  svc:\n    value: \"V\"\n    fields: {F: "+q("!value"+ws+"a b")+"}\n", false, "svc")
		add(fmt.Sprintf("tagged-after-whitespace-%d:valid", k), "services:\n  svc:\n    constructor: \"New\"\n    arguments: ["+q("!tagged"+ws+"tg")+"]\n", true)
		add(fmt.Sprintf("tagged-after-whitespace-%d:invalid", k), "services:\n  svc:\n    constructor: \"New\"\n    arguments: ["+q("!tagged"+ws+"bad tag")+"]\n", false, "svc")
	}
	// explicit `todo: false` is the same as no todo: rules that compare services with each other still apply
	add("todo-false:same-getter-two-services", "services:\n  a:\n    value: \"V\"\n    todo: false\n    getter: \"GetIt\"\n  b:\n    value: \"V\"\n    todo: false\n    getter: \"GetIt\"\n", false, "a", "b")
	add("todo-false:same-getter-one-explicit", "services:\n  a:\n    value: \"V\"\n    getter: \"GetIt\"\n  b:\n    value: \"V\"\n    todo: false\n    getter: \"GetIt\"\n", false, "a", "b")
	add("todo-false:duplicate-tags", "services:\n  a:\n    value: \"V\"\n    todo: false\n    tags: [\"t\", \"t\"]\n", false, "a")
	// one identifier may be used in several roles at once
	add("same-identifier:field-and-call", "services:\n  svc:\n    value: \"V\"\n    fields: {Title: 1}\n    calls: [[\"Title\", [\"x\"]]]\n", true)
	add("same-identifier:getter-and-field-and-call", "services:\n  svc:\n    value: \"V\"\n    getter: \"Name\"\n    fields: {Name: 1}\n    calls: [[\"Name\"]]\n", true)
	add("same-identifier:service-tag-parameter", "parameters:\n  same: 1\nservices:\n  same:\n    constructor: \"New\"\n    arguments: [\"%same%\", \"!tagged same\"]\n    tags: [\"same\"]\n", false, "same") // requests its own tag: a cycle, not a grammar error
	add("same-identifier:type-constructor-getter", "services:\n  svc:\n    constructor: \"Thing\"\n    type: \"Thing\"\n    getter: \"Thing\"\n", true)
	add("same-identifier:two-calls-same-method", "services:\n  svc:\n    value: \"V\"\n    calls: [[\"Add\", [1]], [\"Add\", [1]], [\"Add\", [2], true]]\n", true)
	add("same-identifier:alias-and-function", "meta:\n  imports: {x: \"my/x\"}\n  functions: {x: \"x.X\"}\nparameters:\n  x: \"%x()%\"\nservices:\n  x:\n    constructor: \"x.X\"\n    tags: [\"x\"]\n", true)
	// U+212A KELVIN SIGN and U+017F LATIN SMALL LETTER LONG S fold to k and s: they are not ASCII letters
	for k, bad := range []string{"\u212a", "\u017f", "a\u212a", "\u017fvc", "x\u212ay", "\u00e9", "\u0430"} {
		add(fmt.Sprintf("non-ascii-letter-%d:service-name", k), "services:\n  \""+bad+"\":\n    value: \"V\"\n", false, bad)
		add(fmt.Sprintf("non-ascii-letter-%d:parameter-name", k), "parameters:\n  \""+bad+"\": 1\nservices:\n  svc:\n    value: \"V\"\n", false, bad)
		add(fmt.Sprintf("non-ascii-letter-%d:getter", k), "services:\n  svc:\n    value: \"V\"\n    getter: \"Get"+bad+"\"\n", false, "svc")
		add(fmt.Sprintf("non-ascii-letter-%d:tag", k), "services:\n  svc:\n    value: \"V\"\n    tags: [\""+bad+"\"]\n", false, "svc")
		add(fmt.Sprintf("non-ascii-letter-%d:pkg", k), "meta:\n  pkg: \"p"+bad+"\"\nservices:\n  svc:\n    value: \"V\"\n", false)
		add(fmt.Sprintf("non-ascii-letter-%d:constructor", k), "services:\n  svc:\n    constructor: \"my/pkg.New"+bad+"\"\n", false, "svc")
	}
	add("getter-incontext-suffix", "services:\n  svc:\n    value: \"V\"\n    getter: \"GetInContext\"\n", false, "svc")
	add("getter-reserved", "services:\n  svc:\n    value: \"V\"\n    getter: \"GetParam\"\n", false, "svc")
	add("getter-ok", "services:\n  svc:\n    value: \"V\"\n    getter: \"GetParam2\"\n", true)
	add("must-getter-without-getter", "services:\n  svc:\n    value: \"V\"\n    must_getter: true\n", false, "svc")
	add("value-star-form", "services:\n  svc:\n    constructor: \"New\"\n    arguments: [\"!value *MyVar\", \"!value &MyVar\", \"!value MyVar\", \"!value \\\"my/pkg\\\".Value\", \"!value pkg.Value\", \"!value \\\"pkg\\\".MyVar.Field\", \"!value &\\\"pkg\\\".MyVar.Field\", \"!value \\\".\\\".MyVar.Field\", \"!value \\\"my/pkg\\\".MyStruct{}\", \"!value &\\\"my/pkg\\\".MyStruct{}\", \"!value &MyStruct{}\"]\n", true)
	// k-subsets of independent violations: every key named
	r := rand.New(rand.NewSource(c.Seed))
	viol := []struct{ frag, key, section string }{
		{"  \"bad svc\":\n    value: \"V\"\n", "bad svc", "services"},
		{"  g1:\n    value: \"V\"\n    getter: \"1x\"\n", "g1", "services"},
		{"  t1:\n    value: \"V\"\n    type: \"**T\"\n", "t1", "services"},
		{"  c1:\n    constructor: \"New()\"\n", "c1", "services"},
		{"  v1:\n    value: \"a b\"\n", "v1", "services"},
		{"  m1:\n    value: \"V\"\n    calls: [[\"bad-method\", []]]\n", "m1", "services"},
		{"  f1:\n    value: \"V\"\n    fields: {\"bad-field\": 1}\n", "f1", "services"},
		{"  a1:\n    constructor: \"New\"\n    arguments: [\"@bad svc\"]\n", "a1", "services"},
		{"  a2:\n    constructor: \"New\"\n    arguments: [\"%unclosed\"]\n", "a2", "services"},
		{"  \"bad..param\": 1\n", "bad..param", "parameters"},
		{"  pl: [1]\n", "pl", "parameters"},
		{"  ptok: \"%1 2%\"\n", "ptok", "parameters"},
	}
	nk := c.Pick(60, 600)
	for k := 0; k < nk; k++ {
		n := 2 + r.Intn(4)
		perm := r.Perm(len(viol))[:n]
		sort.Ints(perm)
		var svc, par strings.Builder
		var names []string
		for _, vi := range perm {
			v := viol[vi]
			if v.section == "services" {
				svc.WriteString(v.frag)
			} else {
				par.WriteString(v.frag)
			}
			names = append(names, v.key)
		}
		y := ""
		if par.Len() > 0 {
			y += "parameters:\n" + par.String()
		}
		y += "services:\n  okay:\n    value: \"V\"\n" + svc.String()
		add(fmt.Sprintf("k-subset:%v", perm), y, false, names...)
	}
	// one service defined in two files: every scalar attribute is the last file's that sets it - `todo` too -, and only a service
	// that is a placeholder after the merge is exempt from the attribute rules (round 13, S246)
	for _, x := range []string{"", "true", "false"} {
		for _, y := range []string{"", "true", "false"} {
			for bad := 0; bad < 2; bad++ {
				line := func(t string) string {
					if t == "" {
						return ""
					}
					return "    todo: " + t + "\n"
				}
				f1 := "services:\n  svc:\n    value: \"V\"\n" + line(x)
				f2 := "services:\n  svc:\n    type: \"T\"\n" + line(y)
				malformed := "    getter: \"Get It\"\n    tags: [\"bad tag\"]\n"
				if bad == 0 {
					f1 += malformed
				} else {
					f2 += malformed
				}
				merged := y
				if merged == "" {
					merged = x
				}
				rules = append(rules, c11rule{name: fmt.Sprintf("two-files-todo:first=%q,second=%q,malformed-in=%d", x, y, bad+1), yaml: f1, yaml2: f2, accept: merged == "true", names: []string{"svc"}})
			}
		}
	}
	c.Set("rule_cases", len(rules))
	Par(len(rules), 16, func(i int) {
		rl := rules[i]
		dir := w.TempDir("c11r")
		_ = work.WriteFile(filepath.Join(dir, "in.yaml"), []byte(rl.yaml))
		out := filepath.Join(dir, "out.go")
		argv := []string{"build", "-i", "in.yaml"}
		if rl.yaml2 != "" {
			_ = work.WriteFile(filepath.Join(dir, "in2.yaml"), []byte(rl.yaml2))
			argv = append(argv, "-i", "in2.yaml")
		}
		argv = append(argv, "-o", out, "--ignore-missing-params", "--ignore-missing-services")
		run := cli.Do(w, "", nil, dir, out, argv...)
		files := map[string]string{"input/in.yaml": rl.yaml, "stdout.txt": run.Res.Stdout, "rule.txt": rl.name}
		if rl.yaml2 != "" {
			files["input/in2.yaml"] = rl.yaml2
		}
		c.Eval("rule|"+rl.name+"|"+rl.yaml, true)
		for _, br := range run.Contract() {
			c.Side("C10,C12", "cli-contract:"+sigWords(br), br, files)
		}
		cls := rl.name
		if i := strings.Index(cls, ":"); i > 0 {
			cls = cls[:i]
		}
		if rl.accept && run.Res.Exit != 0 {
			c.Violate("rule-valid-rejected:"+cls, fmt.Sprintf("%s: expected acceptance, got: %v", rl.name, head(run.Rep.List, 4)), files)
		}
		if !rl.accept && run.Res.Exit == 0 {
			c.Violate("rule-invalid-accepted:"+cls, fmt.Sprintf("%s: expected rejection, but the configuration was accepted", rl.name), files)
		}
		if !rl.accept && run.Res.Exit != 0 {
			if t := run.Rep.FailingTop(); t != nil && t.Name == "Compile" {
				for _, n := range rl.names {
					if ok, _ := namedIn(&run, n); !ok {
						c.Violate("violation-not-named:"+cls, fmt.Sprintf("%s: no diagnostic names the offending key %q: %v", rl.name, n, run.Rep.List), files)
					}
				}
			}
		}
	})
}

// c11Seeds: longer valid forms per position, mutated by single-character edits.
var c11Seeds = map[string][]string{
	"parameter-name":      {"a.b-c_d1", "host.port"},
	"service-name":        {"a.b-c_d1", "my-svc"},
	"tag-name":            {"http.handler", "a-b_c"},
	"alias-name":          {"my.alias-1"},
	"import-path":         {"github.com/a-b/c_d.v2", `"a/b/c"`, `"."`},
	"function-name":       {"envInt", "my_Fn1"},
	"go-function":         {"a/b.Fn", `"a/b".Fn`, `".".Fn`, "Fn", "os.Getenv"},
	"go-function-of-builtin-name": {`"a/b".Fn`, "Fn"},
	"getter":              {"GetService1", "Get_it"},
	"service-type":        {`*"net/http".Server`, "*a/b.T", "T", `".".T`},
	"service-value":       {`&"a/b".Var.Field`, "a/b.S{}", `&"a/b".S{}`, "*a.V", `".".V.F`, "V"},
	"service-constructor": {`"my/import".NewServer`, "a.New", "New"},
	"call-method":         {"SetTimeout", "With_x1"},
	"field-name":          {"Timeout", "f_1"},
	"decorator-tag":       {"http.handler", "*"},
	"decorator-method":    {"a/b.Decorate", `".".Dec`},
	"argument-service":    {"@my.svc-1_x"},
	"argument-tagged":     {"!tagged my.tag-1", "!tagged  x"},
	"argument-value":      {`!value &"a/b".Var.Field`, "!value a/b.S{}", "!value *V", `!value ".".V.F`},
}

func mutations(seed string, alpha []string) []string {
	var out []string
	rs := []rune(seed)
	for i := 0; i <= len(rs); i++ {
		for _, a := range alpha {
			out = append(out, string(rs[:i])+a+string(rs[i:])) // insertion
			if i < len(rs) {
				out = append(out, string(rs[:i])+a+string(rs[i+1:])) // replacement
			}
		}
		if i < len(rs) {
			out = append(out, string(rs[:i])+string(rs[i+1:])) // deletion
		}
	}
	out = append(out, seed)
	return out
}
