#!/bin/bash
# Runs every check of one tier sequentially and prints one line per property.
tier=${1:-quick}
cd "$(dirname "$0")"
for p in $(python3 -c "import json;print(' '.join(c['property_id'] for c in json.load(open('MANIFEST.json'))['checks']))"); do
  t0=$(date +%s)
  out=$(./check.sh $p $tier 2>&1); rc=$?
  echo "$p rc=$rc $(( $(date +%s)-t0 ))s $(echo "$out" | grep -E '^(HELD|VIOLATION|INCONCLUSIVE|KNOWN-FINDING)' | cut -c1-160 | tr '\n' '|')"
done
