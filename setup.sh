#!/bin/bash
# Builds the verification engine offline from files on disk only.
set -euo pipefail
cd "$(dirname "$0")"
export GOFLAGS=-mod=mod GOPROXY=off GOSUMDB=off GOTOOLCHAIN=local CGO_ENABLED=0
mkdir -p bin evidence
(cd engine && go build -o ../bin/vcheck ./cmd/vcheck)
echo "built bin/vcheck"
