package mon

import (
	"fmt"
	"math/rand"
	"os"
	"path/filepath"
	"sort"
	"strings"
	"verif/cli"
	"verif/work"

	"verif/gen"
	"verif/probe"
)

func init() { Register("C17", "exploration", checkC17) }

func ownMethods(api *probe.API, runtime []string) []string {
	rt := map[string]bool{}
	for _, m := range runtime {
		rt[m] = true
	}
	var out []string
	for _, m := range api.Methods {
		if !rt[m] {
			out = append(out, m)
		}
	}
	sort.Strings(out)
	return out
}

func checkC17(c *Ctx) error {
	c.Rule = "seeded configurations (the C01 generator incl. hostile alias tables and 1-4 input files; one third carry an injected defect: missing parameter/service, cycle, scope conflict, grammar or token error), each run through the real binary with and without --stub: accept/reject must agree; for accepted pairs the stub must carry the gontainerstub build constraint, build with -tags gontainerstub against fixture packages reduced to their type declarations, declare the same package/type/constructor and the same method set with identical signature strings as the normal output (both reflected), and its constructor and every generated method must panic; sequences of normal and stub runs over one output path give the same verdicts and files as on fresh paths. distinct = distinct input files; non-trivial = accepted pair with at least one getter, or a rejected pair"
	c.Assumptions = []string{"-tags gontainerstub removes every value, constructor and function of the fixture packages (funcs.go files are tagged !gontainerstub), so a stub referencing one does not build", "reflect's signature strings"}
	lab, err := probe.NewLab(c.W)
	if err != nil {
		return err
	}
	n := c.Pick(450, 8000)
	var units []*probe.Unit
	for i := 0; i < n; i++ {
		r := rand.New(rand.NewSource(c.Seed*7907 + int64(i)))
		o := gen.DefaultOpts()
		o.HostileAlias = i%5 == 1
		o.StdPkgs = i%3 == 0 // the packages the template imports for itself are also used by the configuration
		conf := gen.Behaviour(r, o)
		if i%3 == 2 {
			gen.Inject(r, conf, gen.DefectKinds[r.Intn(len(gen.DefectKinds))], i)
		}
		files := gen.Split(r, conf, i%4)
		units = append(units, &probe.Unit{ID: idOf(i), Cfg: conf, Files: files, Ops: []probe.Op{{Op: "new"}, {Op: "api"}}})
		units = append(units, &probe.Unit{ID: idOf(i), Cfg: conf, Files: files, Stub: true})
	}
	if err := runUnits(c, lab, units, false); err != nil {
		return err
	}
	stubs, err := lab.RunStubProbe(units)
	if err != nil {
		return err
	}
	for i := 0; i+1 < len(units); i += 2 {
		nu, su := units[i], units[i+1]
		files := unitFiles(nu)
		if su.Source != "" {
			files["stub.go"] = su.Source
		}
		key := filesKey(nu)
		if nu.Accepted != su.Accepted {
			c.Eval(key, true)
			c.Violate("accept-differs-by-mode", fmt.Sprintf("unit %s: accepted normally=%v, with --stub=%v\nnormal: %s\nstub: %s", nu.ID, nu.Accepted, su.Accepted, rejectReason(nu), rejectReason(su)), files)
			continue
		}
		if !nu.Accepted {
			c.Eval(key, true)
			c.Add("rejected_pairs", 1)
			// the reports must agree too (same diagnostics)
			if strings.Join(nu.Run.Rep.List, "\n") != strings.Join(su.Run.Rep.List, "\n") {
				// the statement fixes the accept/reject decision, not the wording or number of the diagnostics
				c.Add("rejected_pairs_with_different_diagnostics", 1)
			}
			continue
		}
		c.Add("accepted_pairs", 1)
		// build constraint
		head := su.Source
		if k := strings.Index(head, "\npackage "); k >= 0 {
			head = head[:k]
		}
		hasConstraint := false
		for _, ln := range strings.Split(head, "\n") {
			if strings.TrimSpace(ln) == "//go:build gontainerstub" {
				hasConstraint = true
			}
		}
		if !hasConstraint {
			c.Violate("stub-without-build-constraint", fmt.Sprintf("unit %s: the stub has no `//go:build gontainerstub` line before the package clause", nu.ID), files)
		}
		nh := nu.Source
		if k := strings.Index(nh, "\npackage "); k >= 0 {
			nh = nh[:k]
		}
		if strings.Contains(nh, "//go:build") {
			// not forbidden by the statement (a `!gontainerstub` constraint would even be sensible); a constraint that keeps the
			// normal file out of an ordinary build shows up as a missing constructor below and in C01
			c.Add("normal_outputs_with_a_build_constraint", 1)
		}
		if !su.Compiled {
			c.Eval(key, true)
			c.Violate("stub-does-not-build:"+errClass(su.CompileErr), fmt.Sprintf("unit %s: stub does not build with -tags gontainerstub against types-only fixtures:\n%s", nu.ID, firstLines(su.CompileErr, 8)), files)
			continue
		}
		if !nu.Compiled {
			c.Add("normal_not_compiling(reported_by_C01)", 1)
			continue
		}
		if nu.PkgName() == "main" {
			c.Add("package_main_pairs_compile_only", 1)
			c.Eval(key, false)
			continue
		}
		var napi *probe.API
		for _, r := range nu.Results {
			if r.API != nil {
				napi = r.API
			}
		}
		sr := stubs[su.ID]
		if su.InitDied {
			c.Violate("stub-init-panics", fmt.Sprintf("unit %s: package initialisation of the stub died: %s", nu.ID, su.ProbeErr), files)
			continue
		}
		if napi == nil || sr == nil || sr.API == nil {
			c.Violate("probe-missing", fmt.Sprintf("unit %s: API of normal (%v) or stub (%v) output was not observed: %s %s", nu.ID, napi != nil, sr != nil, nu.ProbeErr, su.ProbeErr), files)
			continue
		}
		hasGetter := false
		for _, s := range nu.Cfg.Services {
			hasGetter = hasGetter || (s.Getter != nil && !s.IsTodo())
		}
		c.Eval(key, hasGetter)
		if len(c.Samples) < 2 && hasGetter {
			c.Sample(map[string]any{"files": nu.Files, "normal_type": napi.Type, "stub_type": sr.API.Type, "own_methods": ownMethods(napi, napi.Runtime), "stub_calls": sr.Calls})
		}
		if napi.Type != sr.API.Type || napi.PkgName != sr.API.PkgName {
			c.Violate("type-differs", fmt.Sprintf("unit %s: normal %s vs stub %s", nu.ID, napi.Type, sr.API.Type), files)
		}
		if strings.Join(napi.Methods, "\n") != strings.Join(sr.API.Methods, "\n") {
			c.Violate("method-set-differs", fmt.Sprintf("unit %s:\nnormal: %v\nstub:   %v", nu.ID, ownMethods(napi, napi.Runtime), ownMethods(sr.API, napi.Runtime)), files)
		}
		if strings.Join(napi.Fields, "\n") != strings.Join(sr.API.Fields, "\n") {
			c.Violate("struct-differs", fmt.Sprintf("unit %s: fields normal %v vs stub %v", nu.ID, napi.Fields, sr.API.Fields), files)
		}
		wantCtor := "func() " + napi.Type
		if sr.CtorSig != wantCtor {
			c.Violate("constructor-signature-differs", fmt.Sprintf("unit %s: stub constructor %s, expected %s", nu.ID, sr.CtorSig, wantCtor), files)
		}
		if sr.CtorPanics == "" {
			c.Violate("stub-constructor-returns", fmt.Sprintf("unit %s: the stub constructor returned instead of panicking", nu.ID), files)
		}
		own := ownMethods(napi, napi.Runtime)
		for _, m := range own {
			name := strings.Fields(m)[0]
			p, called := sr.Calls[name]
			c.Add("stub_methods_called", 1)
			if !called {
				c.Violate("stub-method-not-called", fmt.Sprintf("unit %s: %s was not found in the stub", nu.ID, name), files)
			} else if p == "" {
				c.Violate("stub-method-returns:"+methodClass(m), fmt.Sprintf("unit %s: stub method %s returned instead of panicking", nu.ID, name), files)
			}
		}
	}
	// what is already at the output path (nothing, the normal file, the stub) is no input: in every
	// sequence of runs over ONE path both modes give the verdict they give on a fresh path, and write the file they write there
	w := c.W
	seq := c.Pick(20, 300)
	Par(seq, 16, func(k int) {
		i := k * 2 * 7 % len(units)
		i -= i % 2
		nu := units[i]
		if !nu.Accepted || len(nu.Files) == 0 {
			return
		}
		dir := w.TempDir("c17q")
		var pats []string
		for _, f := range nu.Files {
			_ = work.WriteFile(filepath.Join(dir, f.Name), []byte(f.Content))
			pats = append(pats, "-i", f.Name)
		}
		run := func(out string, stub bool) (int, string) {
			args := append(append([]string{"build"}, pats...), "-o", out)
			if stub {
				args = append(args, "--stub")
			}
			r := cli.Do(w, "", nil, dir, filepath.Join(dir, out), args...)
			b, _ := os.ReadFile(filepath.Join(dir, out))
			return r.Res.Exit, string(b)
		}
		eN, fN := run("fresh-normal.go", false)
		eS, fS := run("fresh-stub.go", true)
		if eN != 0 || eS != 0 {
			return
		}
		// "the accept/reject decision is the same in both modes" - also where the decision is taken by the output path: a directory
		// that does not exist, a path below a regular file, a directory in the place of the file
		_ = os.MkdirAll(filepath.Join(dir, "a-directory.go"), 0o755)
		for _, out := range []string{"no/such/dir/gen.go", "fresh-normal.go/below-a-file.go", "a-directory.go"} {
			e1, _ := run(out, false)
			e2, _ := run(out, true)
			c.Add("mode_pairs_with_unusable_output_paths", 1)
			if (e1 == 0) != (e2 == 0) {
				c.Violate("output-path-decides-differently-in-stub-mode", fmt.Sprintf("unit %s: -o %s: exit %d in normal mode, %d with --stub", nu.ID, out, e1, e2), unitFiles(nu))
			}
			_ = os.RemoveAll(filepath.Join(dir, "no"))
		}
		// ... and where it is taken by the process environment: a standard output that cannot be written
		{
			a := append(append([]string{"build"}, pats...), "-o", "full-normal.go")
			rn := cli.DoStdout(w, "", nil, dir, filepath.Join(dir, "full-normal.go"), "/dev/full", a...)
			a = append(append([]string{"build"}, pats...), "-o", "full-stub.go", "--stub")
			rs := cli.DoStdout(w, "", nil, dir, filepath.Join(dir, "full-stub.go"), "/dev/full", a...)
			c.Add("mode_pairs_with_unwritable_stdout", 1)
			if (rn.Res.Exit == 0) != (rs.Res.Exit == 0) {
				c.Violate("unwritable-stdout-decides-differently-in-stub-mode", fmt.Sprintf("unit %s: standard output on /dev/full: exit %d in normal mode, %d with --stub", nu.ID, rn.Res.Exit, rs.Res.Exit), unitFiles(nu))
			}
		}
		steps := []bool{false, true, true, false, true, false, false}
		for si, stub := range steps {
			e, f := run("same.go", stub)
			want := fN
			if stub {
				want = fS
			}
			c.Add("runs_over_a_path_that_holds_an_earlier_output", 1)
			if e != 0 || f != want {
				c.Violate(fmt.Sprintf("earlier-output-at-the-path-changes-the-run:stub=%v", stub), fmt.Sprintf("unit %s: step %d of the sequence normal,stub,stub,normal,stub,normal,normal over one -o path (stub=%v): exit %d, file equal to the one written to a fresh path: %v", nu.ID, si, stub, e, f == want), unitFiles(nu))
				return
			}
		}
	})
	return nil
}
