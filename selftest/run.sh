#!/bin/bash
# usage: selftest/run.sh <patch.diff> <property>...   — applies a patch to a scratch worktree of /repo (never to /repo itself), runs the
# quick checks against it (VERIF_REPO), removes the worktree. Prints one line per property: CAUGHT / MISSED / INCONCLUSIVE.
set -u
patch=$(readlink -f "$1"); shift
wt=$(mktemp -d /tmp/selftest.XXXXXX)/wt
trap 'git -C /repo worktree remove --force $wt 2>/dev/null; git -C /repo worktree prune; rm -rf $(dirname $wt)' EXIT
git -C /repo worktree add --detach -q $wt HEAD || exit 2
git -C $wt apply "$patch" || { echo "patch does not apply: $patch"; exit 2; }
for p in "$@"; do
  out=$(cd /verif && VERIF_REPO=$wt VERIF_EVIDENCE_DIR=$(dirname $wt)/evidence ./check.sh "$p" quick 2>&1); rc=$?
  case $rc in
    1) echo "CAUGHT  $p $(basename "$patch"): $(echo "$out" | grep -m1 'signature:' )";;
    0) echo "MISSED  $p $(basename "$patch")";;
    *) echo "INCONCL $p $(basename "$patch"): $(echo "$out" | tail -1)";;
  esac
done
