package mon

import (
	"encoding/json"
	"fmt"

	"verif/cfg"
	"verif/probe"
)

func init() { Register("X00", "exploration", smoke) }

func smoke(c *Ctx) error {
	lab, err := probe.NewLab(c.W)
	if err != nil {
		return err
	}
	conf := cfg.Config{
		Meta: cfg.Meta{Pkg: cfg.P("gen"), Imports: []cfg.KS{{"pa", "fixt/pa"}}, Functions: []cfg.KS{{"fn", "pa.Fn"}, {"echo", `"fixt/pb".FnEcho`}}},
		Params: []cfg.KV{{"a", cfg.Int(5)}, {"b", cfg.Str("%a%:%fn(1, \"x\")%")}, {"c", cfg.Str("%echo(2.5)%")}, {"u", cfg.Uint(18446744073709551615)}},
		Services: []cfg.Service{
			{Name: "s1", Constructor: cfg.P("pa.New"), Args: []cfg.Val{cfg.Int(1), cfg.Str("@s2"), cfg.Str("%b%"), cfg.Str("$gontainer"), cfg.Str("!tagged t"), cfg.Str(`!value &"fixt/pb".Global`), cfg.Null()},
				Calls:  []cfg.Call{{Method: "Set", Args: []cfg.Val{cfg.Str("x")}}, {Method: "WithP", Args: []cfg.Val{cfg.Float(1.5, "")}, Wither: cfg.P(true)}},
				Fields: []cfg.KV{{"F1", cfg.Int(9)}, {"f3", cfg.Str("@s2")}}, Getter: cfg.P("GetS1"), Type: cfg.P("*pa.Obj"), MustGetter: cfg.P(true), Tags: []cfg.Tag{{Name: "d"}}},
			{Name: "s2", Value: cfg.P(`"fixt/pb".Obj{}`), Tags: []cfg.Tag{{Name: "t", Prio: cfg.P(3)}}},
			{Name: "s3", Constructor: cfg.P("NewVal"), Tags: []cfg.Tag{{Name: "t"}}},
		},
		Decorators: []cfg.Decorator{{Tag: "d", Decorator: "pa.DecSame", Args: []cfg.Val{cfg.Str("@s3")}}, {Tag: "d", Decorator: "Dec", Args: []cfg.Val{cfg.Int(7)}}},
	}
	u := &probe.Unit{ID: "c0001", Cfg: &conf, Files: []probe.File{{"a.yaml", conf.YAML()}},
		Ops: []probe.Op{{Op: "new"}, {Op: "api"}, {Op: "get", Name: "s1"}, {Op: "get", Name: "s1"}, {Op: "param", Name: "b"}, {Op: "param", Name: "c"}, {Op: "param", Name: "u"}, {Op: "getter", Name: "GetS1"}, {Op: "getter", Name: "MustGetS1"}, {Op: "tagged", Name: "t"}, {Op: "circular"}, {Op: "counts"}}}
	us := &probe.Unit{ID: "c0001", Cfg: &conf, Files: u.Files, Stub: true}
	units := []*probe.Unit{u, us}
	lab.Generate(units, 4)
	fmt.Println(u.Files[0].Content)
	fmt.Println(u.Run.Res.Stdout, u.Run.Res.Stderr)
	if err := lab.Compile(units); err != nil {
		return err
	}
	fmt.Println("compiled:", u.Compiled, u.CompileErr, "gofmt", u.GofmtOK, "stub:", us.Compiled, us.CompileErr)
	if err := lab.RunProbes(units, 100, false); err != nil {
		return err
	}
	fmt.Println("probeerr:", u.ProbeErr)
	for _, r := range u.Results {
		b, _ := json.Marshal(r)
		fmt.Println(string(b))
	}
	sr, err := lab.RunStubProbe(units)
	fmt.Println(err, us.ProbeErr)
	for k, v := range sr {
		b, _ := json.Marshal(v)
		fmt.Println(k, string(b))
	}
	c.Eval("a", true)
	c.Eval("b", true)
	return nil
}
