#!/bin/bash
# usage: ./check.sh <property> <quick|thorough>
# exit 0 held / 1 VIOLATION / 2 INCONCLUSIVE. Rebuilds everything it needs from /repo's working tree.
set -uo pipefail
cd "$(dirname "$0")"
export GOFLAGS=-mod=mod GOPROXY=off GOSUMDB=off GOTOOLCHAIN=local
if [ ! -x bin/vcheck ] || [ -n "$(find engine -newer bin/vcheck -name '*.go' -print -quit 2>/dev/null)" ]; then
  ./setup.sh >/dev/null || { echo "INCONCLUSIVE property=$1 reason=engine build failed"; exit 2; }
fi
exec bin/vcheck run -home "$(pwd)" -property "$1" -tier "${2:-${VERIF_TIER:-quick}}"
