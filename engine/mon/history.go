package mon

import (
	"fmt"
	"sort"
	"strings"

	"verif/cfg"
	"verif/probe"
	"verif/ref"
)

// FixtMap: fixture package path -> package name, for the reference interpreter.
func FixtMap() map[string]string {
	m := map[string]string{}
	for _, p := range probe.FixturePkgs {
		m[p.Path] = p.Name
	}
	return m
}

// Expect is what the reference container predicts for one probe operation.
type Expect struct {
	Judged  bool
	Why     string // why not judged
	Err     *ref.ErrM
	Panic   bool
	Val     *probe.D
	Events  []probe.DE
	Static  string // expected static result type of a getter ("" = not judged)
	SPkg    string // expected package path of that type ("-" = not judged)
	Counts  map[string]int
	Tainted bool
	Missing bool // getter must not exist
	Bool    *bool // expected boolean answer (IsTaggedBy)
}

func depM(d probe.DepSpec) ref.DepM {
	switch d.Dep {
	case "service", "param", "tag":
		return ref.DepM{Kind: d.Dep, Name: d.Name}
	}
	var v any
	switch d.T {
	case "int":
		n := 0
		fmt.Sscanf(d.V, "%d", &n)
		v = n
	case "float64":
		f := 0.0
		fmt.Sscanf(d.V, "%g", &f)
		v = f
	case "bool":
		v = d.V == "true"
	case "nil":
		v = nil
	default:
		v = d.V
	}
	return ref.DepM{Kind: "value", Val: v}
}

// getterInfo finds the service a generated method name belongs to.
func getterInfo(c *cfg.Config, method string) (svc *cfg.Service, must, inCtx bool) {
	name := method
	if strings.HasSuffix(name, "InContext") {
		inCtx = true
		name = strings.TrimSuffix(name, "InContext")
	}
	try := func(n string) *cfg.Service {
		for i := range c.Services {
			s := &c.Services[i]
			if !s.IsTodo() && s.Getter != nil && *s.Getter == n {
				return s
			}
		}
		return nil
	}
	if s := try(name); s != nil {
		return s, false, inCtx
	}
	if strings.HasPrefix(name, "Must") {
		if s := try(strings.TrimPrefix(name, "Must")); s != nil {
			return s, true, inCtx
		}
	}
	return nil, false, inCtx
}

// HasMust tells whether the truth table of C13 gives the service a must-getter.
func HasMust(c *cfg.Config, s *cfg.Service) bool {
	if s.Getter == nil || *s.Getter == "" {
		return false
	}
	if s.MustGetter != nil {
		return *s.MustGetter
	}
	return c.Meta.DefaultMustGetter != nil && *c.Meta.DefaultMustGetter
}

// RunModel executes the history on the reference container.
func RunModel(conf *cfg.Config, ops []probe.Op, env map[string]string) []Expect {
	it := ref.NewInterp(conf, FixtMap())
	it.Env = map[string]string{}
	for k, v := range env {
		it.Env[k] = v
	}
	out := make([]Expect, len(ops))
	diverged := ""
	for i, op := range ops {
		e := &out[i]
		if diverged != "" {
			e.Why = "model diverged earlier: " + diverged
			continue
		}
		if op.NoModel {
			e.Why = "judged by a relation between observations"
			continue
		}
		it.StartOp()
		var v any
		var err *ref.ErrM
		hasVal := false
		switch op.Op {
		case "new":
			it.New()
			it.PreEvaluate()
			e.Judged = true
		case "get":
			v, err = it.Get(op.Name)
			hasVal = true
		case "getctx":
			v, err = it.GetInContext(op.Ctx, op.Name)
			hasVal = true
		case "param":
			v, err = it.GetParam(op.Name)
			hasVal = true
		case "tagged":
			v, err = it.GetTaggedBy(op.Name)
			hasVal = true
		case "taggedctx":
			v, err = it.GetTaggedByInContext(op.Ctx, op.Name)
			hasVal = true
		case "getter", "getterctx":
			s, must, inCtx := getterInfo(conf, op.Name)
			if s == nil || (must && !HasMust(conf, s)) || inCtx != (op.Op == "getterctx") {
				e.Judged = true
				e.Missing = true
				continue
			}
			if inCtx {
				v, err = it.GetInContext(op.Ctx, s.Name)
			} else {
				v, err = it.Get(s.Name)
			}
			hasVal = true
			if err != nil && must {
				e.Panic = true
			}
			t := "interface {}"
			e.SPkg = "-"
			if s.Type != nil {
				r := it.Im.ParseType(*s.Type)
				t = ""
				if it.KnownPkg(r.Pkg) {
					e.SPkg = r.Pkg
					if r.Pkg == "" {
						e.SPkg = "." // the generated package itself
					}
					t = it.TypeName(r.Pkg, r.Sym)
					if r.Ptr {
						t = "*" + t
					}
				}
			}
			if t != "" {
				in := ""
				if inCtx {
					in = "context.Context"
				}
				if must {
					e.Static = "func(" + in + ") " + t
				} else {
					e.Static = "func(" + in + ") (" + t + ", error)"
				}
			}
			// conversion to the declared type: only judged when the dynamic type is the declared one
			if err == nil && s.Type != nil && !it.Assignable(v, *s.Type) {
				if it.SurelyInconvertible(v, *s.Type) {
					// the object cannot be converted to T: every accessor has to say so (an error, or a panic from the Must variants)
					err = &ref.ErrM{Why: "the service's dynamic type cannot be converted to the declared getter type"}
					if must {
						e.Panic = true
					}
				} else {
					it.Unknown = "dynamic type differs from the declared getter type"
				}
			}
		case "istagged":
			e.Judged = true
			b := false
			if sv := conf.Service(op.Name); sv != nil && !sv.IsTodo() {
				for _, t := range sv.Tags {
					b = b || t.Name == op.Val
				}
			}
			e.Bool = &b
		case "circular", "api", "counts":
			e.Judged = true
		case "overrideparam":
			it.OverrideParam(op.Name, depM(op.Deps[0]))
			e.Judged = true
		case "overridesvc":
			o := ref.OverrideSvc{Ctor: op.Ctor, Scope: op.Scope}
			if len(op.Tags) > 0 {
				o.Tags = map[string]int{}
				for _, t := range op.Tags {
					o.Tags[t.Name] = t.Prio
				}
			}
			for _, d := range op.Deps {
				o.Deps = append(o.Deps, depM(d))
			}
			it.OverrideService(op.Name, o)
			e.Judged = true
		case "adddecorator":
			dec := cfg.Decorator{Tag: op.Name, Decorator: `"` + op.Ctor[:strings.LastIndex(op.Ctor, ".")] + `".` + op.Ctor[strings.LastIndex(op.Ctor, ".")+1:]}
			for _, d := range op.Deps {
				switch d.Dep {
				case "service":
					dec.Args = append(dec.Args, cfg.Str("@"+d.Name))
				case "tag":
					dec.Args = append(dec.Args, cfg.Str("!tagged "+d.Name))
				case "param":
					dec.Args = append(dec.Args, cfg.Str("%"+d.Name+"%"))
				default:
					dec.Args = append(dec.Args, cfg.Str(d.V))
				}
			}
			it.AddDecorator(dec)
			e.Judged = true
		case "setenv":
			it.Env[op.Name] = op.Val
			e.Judged = true
		case "unsetenv":
			delete(it.Env, op.Name)
			e.Judged = true
		default:
			e.Why = "op not modelled"
			continue
		}
		if it.Unknown != "" {
			diverged = it.Unknown
			e.Judged = false
			e.Why = "outside the modelled subset: " + it.Unknown
			continue
		}
		if hasVal {
			e.Judged = true
			e.Tainted = it.Tainted
			if err != nil {
				e.Err = err
			} else {
				d := it.Describe(v)
				e.Val = &d
			}
			e.Events = it.DescribeEvents(it.Events)
		}
		if op.Op == "counts" {
			e.Counts = map[string]int{}
			for k, n := range it.Counts {
				e.Counts[k] = n
			}
		}
	}
	return out
}

type Mismatch struct {
	Op   int
	Kind string // signature component
	Text string
}

func stripIDs(d *probe.D) {
	if d == nil {
		return
	}
	d.ID, d.From = 0, 0
	for i := range d.Args {
		stripIDs(&d.Args[i])
	}
	for i := range d.F {
		stripIDs(&d.F[i])
	}
	for i := range d.Hist {
		for j := range d.Hist[i].Args {
			stripIDs(&d.Hist[i].Args[j])
		}
	}
	stripIDs(d.Inner)
	for i := range d.Elems {
		stripIDs(&d.Elems[i])
	}
}

func eventKeys(es []probe.DE) []string {
	var ks []string
	for _, e := range es {
		e.Serial = 0
		for j := range e.Args {
			stripIDs(&e.Args[j])
		}
		ks = append(ks, ref.JSON(e))
	}
	sort.Strings(ks)
	return ks
}

// CompareHistory checks the observed results of a unit against the model's expectations.
// judged counts the operations that were compared.
func CompareHistory(u *probe.Unit, exp []Expect, skipTainted bool) (mm []Mismatch, judged int) {
	co, ce := ref.NewCanon(), ref.NewCanon()
	for i := range u.Ops {
		if i >= len(u.Results) {
			mm = append(mm, Mismatch{i, "no-result", fmt.Sprintf("op %d %s %s: the probe produced no result (%s)", i, u.Ops[i].Op, u.Ops[i].Name, u.ProbeErr)})
			return
		}
		r := u.Results[i]
		e := exp[i]
		op := u.Ops[i]
		label := fmt.Sprintf("op %d %s %s", i, op.Op, op.Name)
		if op.Op == "new" {
			co, ce = ref.NewCanon(), ref.NewCanon() // a fresh container: instance numbering starts over
		}
		if r.Died {
			mm = append(mm, Mismatch{i, "died", label + ": probe process ended: " + r.Panic})
			return
		}
		if !e.Judged {
			return // nothing after an unjudged op can be compared: the model's state may differ
		}
		if e.Missing {
			judged++
			if !r.Missing {
				mm = append(mm, Mismatch{i, "method-should-not-exist", label + ": method exists but the configuration gives no such getter"})
			}
			continue
		}
		if r.Missing {
			judged++
			mm = append(mm, Mismatch{i, "method-missing", label + ": expected generated method is missing"})
			continue
		}
		if e.Tainted && skipTainted {
			// keep canonical numbering in step, do not judge
			if r.Val != nil && e.Val != nil {
				ov, ev := *r.Val, *e.Val
				co.D(&ov)
				ce.D(&ev)
				if ref.JSON(ov) != ref.JSON(ev) {
					return
				}
			} else if (r.Val == nil) != (e.Val == nil) {
				return
			}
			continue
		}
		judged++
		if e.Static != "" && r.Static != "" && e.Static != r.Static {
			mm = append(mm, Mismatch{i, "signature", fmt.Sprintf("%s: signature %q, expected %q", label, r.Static, e.Static)})
		}
		if e.SPkg != "" && e.SPkg != "-" && r.Static != "" {
			want := e.SPkg
			if want == "." {
				want = "fixt/gen/" + u.ID
				if u.PkgName() == "main" {
					want = "main"
				}
			}
			if r.SPkg != want {
				mm = append(mm, Mismatch{i, "type-package", fmt.Sprintf("%s: result type comes from package %q, expected %q", label, r.SPkg, want)})
			}
		}
		if e.Panic {
			if r.Panic == "" {
				mm = append(mm, Mismatch{i, "no-panic", label + ": expected a panic, got none"})
			}
			continue
		}
		if r.Panic != "" {
			mm = append(mm, Mismatch{i, "panic", label + ": unexpected panic: " + firstLines(r.Panic, 6)})
			return
		}
		if e.Err != nil {
			if r.Err == "" {
				mm = append(mm, Mismatch{i, "no-error", fmt.Sprintf("%s: expected an error (%s), got a value: %s", label, e.Err.Why, ref.JSON(r.Val))})
				return
			}
			// a getter of a non-nillable type has to return its zero value next to the error: only Get-like calls are judged
			if r.Val != nil && op.Op != "getter" && op.Op != "getterctx" {
				mm = append(mm, Mismatch{i, "error-with-value", fmt.Sprintf("%s: error %q came together with a value %s", label, r.Err, ref.JSON(r.Val))})
			}
			text := r.Err
			if e.Err.Token != "" {
				if !strings.Contains(r.Err, e.Err.Token) {
					mm = append(mm, Mismatch{i, "error-token", fmt.Sprintf("%s: error %q does not name the token %q", label, r.Err, e.Err.Token)})
				}
				text = strings.ReplaceAll(r.Err, e.Err.Token, "")
			}
			notText := text
			if e.Err.Token != "" {
				// the runtime reports the errors of all failing arguments, fields and calls together, one per line: the demand
				// concerns the line(s) of this token only
				var own []string
				for _, ln := range strings.Split(r.Err, "\n") {
					if strings.Contains(ln, e.Err.Token) {
						own = append(own, strings.ReplaceAll(ln, e.Err.Token, ""))
					}
				}
				notText = strings.Join(own, "\n")
			}
			for _, s := range e.Err.Not {
				if strings.Contains(notText, s) {
					mm = append(mm, Mismatch{i, "error-text", fmt.Sprintf("%s: error %q contains %q although another message was given (%s)", label, r.Err, s, e.Err.Why)})
				}
			}
			for _, s := range e.Err.Contains {
				if !strings.Contains(text, s) {
					mm = append(mm, Mismatch{i, "error-text", fmt.Sprintf("%s: error %q does not mention %q (%s)", label, r.Err, s, e.Err.Why)})
				}
			}
		} else if op.Op == "istagged" && e.Bool != nil {
			if r.Bool == nil || *r.Bool != *e.Bool {
				mm = append(mm, Mismatch{i, "is-tagged-by", fmt.Sprintf("%s %s: IsTaggedBy answered %v, expected %v", label, op.Val, r.Bool != nil && *r.Bool, *e.Bool)})
			}
		} else if op.Op == "new" || op.Op == "circular" || op.Op == "overrideparam" || op.Op == "overridesvc" || op.Op == "adddecorator" || op.Op == "setenv" || op.Op == "unsetenv" || op.Op == "api" || op.Op == "istagged" {
			if r.Err != "" || !r.OK {
				mm = append(mm, Mismatch{i, op.Op + "-failed", fmt.Sprintf("%s: failed: %s", label, r.Err)})
				if op.Op == "new" {
					return
				}
			}
		} else if op.Op == "counts" {
			for k, n := range e.Counts {
				if int(r.Counts[k]) != n {
					mm = append(mm, Mismatch{i, "count", fmt.Sprintf("%s: %s invoked %d times, expected %d", label, k, r.Counts[k], n)})
				}
			}
			for k, n := range r.Counts {
				if _, ok := e.Counts[k]; !ok && n != 0 {
					mm = append(mm, Mismatch{i, "count", fmt.Sprintf("%s: %s invoked %d times, expected 0", label, k, n)})
				}
			}
		} else {
			if r.Err != "" {
				mm = append(mm, Mismatch{i, "unexpected-error", fmt.Sprintf("%s: unexpected error: %s", label, r.Err)})
				return
			}
			if r.Val == nil || e.Val == nil {
				mm = append(mm, Mismatch{i, "no-value", label + ": missing value"})
				return
			}
			ov, ev := *r.Val, *e.Val
			co.D(&ov)
			ce.D(&ev)
			oj, ej := ref.JSON(ov), ref.JSON(ev)
			if oj != ej {
				mm = append(mm, Mismatch{i, "value", fmt.Sprintf("%s: object graph differs\n  expected: %s\n  observed: %s", label, ej, oj)})
				return
			}
		}
		ok, ek := eventKeys(r.Events), eventKeys(e.Events)
		if strings.Join(ok, "\n") != strings.Join(ek, "\n") {
			mm = append(mm, Mismatch{i, "events", fmt.Sprintf("%s: function/orphan events differ\n  expected: %v\n  observed: %v", label, ek, ok)})
		}
	}
	return
}
