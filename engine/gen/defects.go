package gen

import (
	"fmt"
	"math/rand"
	"strings"

	"verif/cfg"
)

// Defect classes that can be injected into a valid configuration. Every injection uses
// fresh names, so injections are independent of each other.
var DefectKinds = []string{"missing-param", "missing-service", "cycle-svc", "cycle-param", "scope", "grammar", "token", "missing-mixed"}

func pickService(r *rand.Rand, c *cfg.Config) *cfg.Service {
	var idx []int
	for i := range c.Services {
		if !c.Services[i].IsTodo() {
			idx = append(idx, i)
		}
	}
	if len(idx) == 0 {
		c.Services = append(c.Services, cfg.Service{Name: fmt.Sprintf("inj%d", len(c.Services)), Constructor: cfg.P(`"fixt/pa".New`)})
		return &c.Services[len(c.Services)-1]
	}
	return &c.Services[idx[r.Intn(len(idx))]]
}

// addRef puts a reference string somewhere into a service (constructor argument, field or call argument).
func addRef(r *rand.Rand, s *cfg.Service, ref string) string {
	switch k := r.Intn(3); {
	case k == 0 && s.Constructor != nil:
		s.Args = append(s.Args, cfg.Str(ref))
		return "ctorarg"
	case k == 1 && (s.Constructor != nil || s.Value != nil):
		for _, f := range []string{"F1", "F2", "f3"} {
			used := false
			for _, kv := range s.Fields {
				used = used || kv.K == f
			}
			if !used {
				s.Fields = append(s.Fields, cfg.KV{K: f, V: cfg.Str(ref)})
				return "field"
			}
		}
		fallthrough
	default:
		s.Calls = append(s.Calls, cfg.Call{Method: "Set", Args: []cfg.Val{cfg.Str(ref)}})
		return "callarg"
	}
}

// Inject adds one defect of the given kind; n makes the fresh names unique.
func Inject(r *rand.Rand, c *cfg.Config, kind string, n int) {
	switch kind {
	case "missing-param":
		name := fmt.Sprintf("nopeP%d", n)
		if r.Intn(6) == 0 {
			// a missing parameter named like a registered function: `%env%` is still a reference to a parameter
			cands := []string{"env", "envInt", "todo"}
			for _, kv := range c.Meta.Functions {
				cands = append(cands, kv.K)
			}
			cand := cands[r.Intn(len(cands))]
			declared := false
			for _, kv := range c.Params {
				declared = declared || kv.K == cand
			}
			if !declared {
				name = cand
			}
		}
		if r.Intn(5) == 0 {
			// names may be long (48, 60, 61, 100+ characters): they are printed, padded, aligned
			name = fmt.Sprintf("nopeP%d.%s", n, strings.Repeat("billing.payments-gateway.http_client.", 1+r.Intn(3))+"timeout")
		}
		if len(c.Params) >= 2 && r.Intn(4) == 0 {
			// a wide pattern (5-9 references, one of them dangling, at any position) that is compiled early, followed by other
			// multi-chunk patterns compiled later
			k := 5 + r.Intn(5)
			at := r.Intn(k)
			var sb strings.Builder
			for j := 0; j < k; j++ {
				if j == at {
					sb.WriteString("%" + name + "%")
				} else {
					sb.WriteString("%" + c.Params[r.Intn(len(c.Params))].K + "%")
				}
				sb.WriteString([]string{"", ":", "-", "/"}[r.Intn(4)])
			}
			later := func() string {
				var lb strings.Builder
				for j := 0; j < 2+r.Intn(5); j++ {
					lb.WriteString("%" + c.Params[r.Intn(len(c.Params))].K + "%" + []string{"", ":", " "}[r.Intn(3)])
				}
				return lb.String()
			}
			np := len(c.Params)
			if r.Intn(2) == 0 {
				c.Params = append(c.Params, cfg.KV{K: fmt.Sprintf("AAWide%d", n), V: cfg.Str(sb.String())})
			} else {
				c.Services = append(c.Services, cfg.Service{Name: fmt.Sprintf("AAWide%d", n), Constructor: cfg.P(`"fixt/pa".New`), Args: []cfg.Val{cfg.Str(sb.String())}})
			}
			for j := 0; j < 1+r.Intn(3); j++ {
				c.Params = append(c.Params, cfg.KV{K: fmt.Sprintf("zzLater%d.%d", n, j), V: cfg.Str(later())})
				c.Services = append(c.Services, cfg.Service{Name: fmt.Sprintf("zzLater%d.%d", n, j), Constructor: cfg.P(`"fixt/pa".New`), Args: []cfg.Val{cfg.Str("x" + later())}})
			}
			_ = np
			return
		}
		switch r.Intn(4) {
		case 0:
			c.Params = append(c.Params, cfg.KV{K: fmt.Sprintf("injp%d", n), V: cfg.Str(choose2(r, "%"+name+"%", "a%"+name+"%b", "%%%"+name+"%", "a%%b%%c%"+name+"%d%%e", "%"+name+"%%"+name+"%"))})
		case 1:
			if len(c.Decorators) > 0 {
				d := &c.Decorators[r.Intn(len(c.Decorators))]
				d.Args = append(d.Args, cfg.Str("%"+name+"%"))
				return
			}
			fallthrough
		default:
			addRef(r, pickService(r, c), choose2(r, "%"+name+"%", "x%"+name+"%", "%%%"+name+"%%%", "%%x%%y%%%"+name+"%z", "%"+name+"%-%"+name+"%"))
		}
		twins(r, c, name, "", false)
	case "missing-service":
		name := fmt.Sprintf("nopeS%d", n)
		if r.Intn(5) == 0 {
			name = fmt.Sprintf("nopeS%d.%s", n, strings.Repeat("billing.payments-gateway.http_client.", 1+r.Intn(3))+"transport")
		}
		if r.Intn(4) == 0 && len(c.Decorators) > 0 {
			d := &c.Decorators[r.Intn(len(c.Decorators))]
			d.Args = append(d.Args, cfg.Str("@"+name))
			return
		}
		sv := pickService(r, c)
		addRef(r, sv, "@"+name)
		if r.Intn(3) == 0 {
			addRef(r, sv, "@"+name) // the same dangling reference twice: two diagnostics, possibly identical and adjacent
		}
		twins(r, c, name, "@"+name, true)
	case "missing-mixed":
		// one fresh service whose constructor arguments alone (no calls, no fields) hold dangling references of BOTH
		// classes next to defined ones, in a random order
		args := []cfg.Val{cfg.Str(fmt.Sprintf("@nopeMS%d", n)), cfg.Str(fmt.Sprintf("%%nopeMP%d%%", n))}
		if r.Intn(2) == 0 {
			args = append(args, cfg.Str(fmt.Sprintf("@nopeMT%d", n)))
		}
		if r.Intn(2) == 0 {
			args = append(args, cfg.Str(fmt.Sprintf("x%%nopeMQ%d%%", n)))
		}
		if len(c.Params) > 0 && r.Intn(2) == 0 {
			if k := c.Params[r.Intn(len(c.Params))].K; plainName(k) {
				args = append(args, cfg.Str("%"+k+"%"))
			}
		}
		if r.Intn(2) == 0 {
			args = append(args, cfg.Int(int64(n)))
		}
		r.Shuffle(len(args), func(i, j int) { args[i], args[j] = args[j], args[i] })
		c.Services = append(c.Services, cfg.Service{Name: fmt.Sprintf("mix%d", n), Constructor: cfg.P(`"fixt/pa".New`), Args: args})
	case "cycle-svc":
		a, b := fmt.Sprintf("cycA%d", n), fmt.Sprintf("cycB%d", n)
		switch r.Intn(3) {
		case 0: // self loop
			c.Services = append(c.Services, cfg.Service{Name: a, Constructor: cfg.P(`"fixt/pa".New`), Args: []cfg.Val{cfg.Str("@" + a)}})
		case 1: // through a tag
			tag := fmt.Sprintf("cyct%d", n)
			c.Services = append(c.Services, cfg.Service{Name: a, Constructor: cfg.P(`"fixt/pa".New`), Args: []cfg.Val{cfg.Str("!tagged " + tag)}, Tags: []cfg.Tag{{Name: tag}}})
		default:
			c.Services = append(c.Services,
				cfg.Service{Name: a, Constructor: cfg.P(`"fixt/pa".New`), Args: []cfg.Val{cfg.Str("@" + b)}},
				cfg.Service{Name: b, Constructor: cfg.P(`"fixt/pa".New`), Fields: []cfg.KV{{K: "F1", V: cfg.Str("@" + a)}}})
		}
	case "cycle-param":
		a, b := fmt.Sprintf("cpA%d", n), fmt.Sprintf("cpB%d", n)
		if r.Intn(2) == 0 {
			c.Params = append(c.Params, cfg.KV{K: a, V: cfg.Str("%" + a + "%")})
		} else {
			c.Params = append(c.Params, cfg.KV{K: a, V: cfg.Str("x%" + b + "%")}, cfg.KV{K: b, V: cfg.Str("%" + a + "%y")})
		}
	case "scope":
		a, b := fmt.Sprintf("shA%d", n), fmt.Sprintf("ctxB%d", n)
		args := []cfg.Val{cfg.Str("@" + b)}
		switch r.Intn(4) {
		case 0: // an undefined dependency next to the contextual one, sorting before it
			args = append([]cfg.Val{cfg.Str(fmt.Sprintf("@aaaMissing%d", n))}, args...)
		case 1: // ... sorting after it
			args = append(args, cfg.Str(fmt.Sprintf("@zzzMissing%d", n)))
		}
		c.Services = append(c.Services,
			cfg.Service{Name: a, Constructor: cfg.P(`"fixt/pa".New`), Args: args, Scope: cfg.P("shared")},
			cfg.Service{Name: b, Constructor: cfg.P(`"fixt/pa".New`), Scope: cfg.P("contextual")})
	case "grammar":
		switch r.Intn(4) {
		case 0:
			c.Services = append(c.Services, cfg.Service{Name: fmt.Sprintf("bad name%d", n), Constructor: cfg.P(`"fixt/pa".New`)})
		case 1:
			c.Services = append(c.Services, cfg.Service{Name: fmt.Sprintf("badg%d", n), Constructor: cfg.P(`"fixt/pa".New`), Getter: cfg.P("1x")})
		case 2:
			c.Services = append(c.Services, cfg.Service{Name: fmt.Sprintf("badc%d", n), Constructor: cfg.P(`fixt/pa.New()`)})
		default:
			c.Params = append(c.Params, cfg.KV{K: fmt.Sprintf("bad..p%d", n), V: cfg.Int(1)})
		}
	case "token":
		c.Params = append(c.Params, cfg.KV{K: fmt.Sprintf("tok%d", n), V: cfg.Str(choose2(r, "%unclosed", "%unknownFn()%", "%1 2%"))})
	}
}

// twins plants things that look like the missing definition but are not: a definition of the OTHER kind with the same
// name (parameter x next to a dangling @x, service x next to a dangling %x%), a parameter whose text equals the dangling
// service reference, and enough unrelated parameters that there are at least as many parameters as services.
func twins(r *rand.Rand, c *cfg.Config, name, refText string, missingIsService bool) {
	switch r.Intn(4) {
	case 0:
		if missingIsService {
			c.Params = append(c.Params, cfg.KV{K: name, V: cfg.Str("a parameter, not a service")})
			for i := 0; len(c.Params) < len(c.Services)+r.Intn(3); i++ {
				c.Params = append(c.Params, cfg.KV{K: fmt.Sprintf("pad%s%d", name, i), V: cfg.Int(int64(i))})
			}
		} else {
			c.Services = append(c.Services, cfg.Service{Name: name, Constructor: cfg.P(`"fixt/pa".New`)})
		}
	case 1:
		if refText != "" {
			// the very same text as a parameter value: there it is a plain string
			c.Params = append(c.Params, cfg.KV{K: "twin" + name, V: cfg.Str(refText)})
		}
	}
}

func choose2(r *rand.Rand, xs ...string) string { return xs[r.Intn(len(xs))] }

func plainName(s string) bool {
	for _, ch := range s {
		if !(ch >= 'a' && ch <= 'z' || ch >= 'A' && ch <= 'Z' || ch >= '0' && ch <= '9' || ch == '_') {
			return false
		}
	}
	return s != ""
}

// Externalise removes definitions that the rest of the configuration refers to and leaves the references in place:
// parameters and services that are only supplied at run time (OverrideParam / OverrideService), built with the
// --ignore-missing-* flags. mode 0: every parameter; 1: about half of them; 2: some services; 3: every parameter and some services.
// It returns the flags the build needs.
func Externalise(r *rand.Rand, c *cfg.Config, mode int) []string {
	var flags []string
	if mode == 0 || mode == 1 || mode == 3 {
		var keep []cfg.KV
		for _, kv := range c.Params {
			if mode == 1 && r.Intn(2) == 0 {
				keep = append(keep, kv)
			}
		}
		c.Params = keep
		flags = append(flags, "--ignore-missing-params")
	}
	if mode == 2 || mode == 3 {
		var keep []cfg.Service
		for _, s := range c.Services {
			if r.Intn(3) != 0 {
				keep = append(keep, s)
			}
		}
		c.Services = keep
		flags = append(flags, "--ignore-missing-services")
	}
	return flags
}
