// Package probe (engine side) lays generated containers out in the probe module,
// runs the compile gate, builds and runs history probes and decodes what they observed.
package probe

import (
	"bufio"
	"encoding/json"
	"fmt"
	"os"
	"path/filepath"
	"regexp"
	"sort"
	"strings"
	"sync"
	"time"

	"verif/cfg"
	"verif/cli"
	"verif/work"
)

type FixPkg = cfg.FixPkg

// FixturePkgs: see cfg.FixturePkgs.
var FixturePkgs = cfg.FixturePkgs

type D struct {
	K     string `json:"k"`
	T     string `json:"t,omitempty"`
	V     string `json:"v,omitempty"`
	ID    int64  `json:"id,omitempty"`
	Seen  bool   `json:"seen,omitempty"`
	Ptr   bool   `json:"ptr,omitempty"`
	Pkg   string `json:"pkg,omitempty"`
	Ctor  string `json:"ctor,omitempty"`
	From  int64  `json:"from,omitempty"`
	Args  []D    `json:"args,omitempty"`
	F     []D    `json:"f,omitempty"`
	Hist  []E    `json:"hist,omitempty"`
	Inner *D     `json:"inner,omitempty"`
	Tag   string `json:"tag,omitempty"`
	Svc   string `json:"svc,omitempty"`
	Fn    string `json:"fn,omitempty"`
	Elems []D    `json:"elems,omitempty"`
	Same  bool   `json:"same,omitempty"`
}

type E struct {
	Kind   string    `json:"kind"`
	Method string    `json:"method"`
	Pkg    string    `json:"pkg,omitempty"`
	Tag    string    `json:"tag,omitempty"`
	Svc    string    `json:"svc,omitempty"`
	Args   []D       `json:"args,omitempty"`
	Snap   [3]string `json:"snap"`
}

type DE struct {
	Kind   string `json:"kind"`
	Pkg    string `json:"pkg,omitempty"`
	Sym    string `json:"sym"`
	Serial int64  `json:"serial,omitempty"`
	Args   []D    `json:"args,omitempty"`
}

type DepSpec struct {
	Dep  string `json:"dep"`
	T    string `json:"t,omitempty"`
	V    string `json:"v,omitempty"`
	Name string `json:"name,omitempty"`
}

// TagSpec is a tag of a service registered at run time.
type TagSpec struct {
	Name string `json:"name"`
	Prio int    `json:"prio"`
}

type Op struct {
	Op    string    `json:"op"`
	Name  string    `json:"name,omitempty"`
	Ctx   int       `json:"ctx,omitempty"`
	Val   string    `json:"val,omitempty"`
	Ctor  string    `json:"ctor,omitempty"`
	Deps  []DepSpec `json:"deps,omitempty"`
	Scope string    `json:"scope,omitempty"`
	Tags  []TagSpec `json:"tags,omitempty"` // overridesvc: tags of the service registered at run time
	G     int       `json:"g,omitempty"`
	Reps  int       `json:"reps,omitempty"`
	Seed  int64     `json:"seed,omitempty"`
	Ops   []Op      `json:"ops,omitempty"`
	// NoModel: the reference container does not execute this operation (it is judged by a relation between observed results)
	NoModel bool `json:"nomodel,omitempty"`
}

type API struct {
	Type    string   `json:"type"`
	PkgPath string   `json:"pkgpath"`
	PkgName string   `json:"pkgname"`
	Methods []string `json:"methods"`
	Runtime []string `json:"runtime"`
	Fields  []string `json:"fields"`
}

type StressRes struct {
	Ops        int                           `json:"ops"`
	Goroutines int                           `json:"goroutines"`
	Errors     []string                      `json:"errors,omitempty"`
	Panics     []string                      `json:"panics,omitempty"`
	StartOrder []int                         `json:"start_order,omitempty"`
	Serials    map[string][]int64            `json:"serials,omitempty"`
	CtxSerials map[string]map[string][]int64 `json:"ctx_serials,omitempty"`
	CtxReach   map[string][]int64            `json:"ctx_reach,omitempty"`
	Counts     map[string]int64              `json:"counts,omitempty"`
	OKOps      map[string]int                `json:"ok_ops,omitempty"`
}

type Res struct {
	C       string           `json:"c"`
	I       int              `json:"i"`
	Phase   string           `json:"phase"`
	OK      bool             `json:"ok,omitempty"`
	Err     string           `json:"err,omitempty"`
	Panic   string           `json:"panic,omitempty"`
	Missing bool             `json:"missing,omitempty"`
	Val     *D               `json:"val,omitempty"`
	Static  string           `json:"static,omitempty"`
	SPkg    string           `json:"spkg,omitempty"`
	Events  []DE             `json:"events,omitempty"`
	Counts  map[string]int64 `json:"counts,omitempty"`
	API     *API             `json:"api,omitempty"`
	Bool    *bool            `json:"bool,omitempty"`
	Stress  *StressRes       `json:"stress,omitempty"`
	Died    bool             `json:"died,omitempty"` // filled by the engine: the probe process ended during this op
}

type File = cfg.File

// Unit is one configuration and everything observed about it.
type Unit struct {
	ID       string
	Cfg      *cfg.Config // merged view (package/type/constructor names)
	Files    []File      // YAML inputs written into the unit's cwd
	Patterns []string    // -i patterns (default: one per file, in order)
	Flags    []string    // extra flags (--stub, --ignore-…)
	Stub     bool
	Ops      []Op
	Env      []string // extra environment for the tool (nil: sanitised)
	Previous string   // content already at the -o path before the run ("" = the path does not exist)
	Prior    *Prior   // a run of the tool executed first, over the same -o path and in the same directory (nil: none)
	Piped    []int    // indexes into Files: these inputs are named pipes fed by the harness while the tool runs
	PipeSeen []bool   // per Piped entry: the tool opened the pipe and everything was written

	Run        cli.Run
	Accepted   bool
	Source     string // generated file content
	GofmtOK    bool
	GofmtDiff  string
	Compiled   bool
	CompileErr string
	Results    []Res
	LangErr    string // compile errors at the language version the pinned runtime itself declares ("" = fine or not tried)
	LangTried  bool
	ProbeErr   string // probe-level failure affecting this unit ("" = fine)
	InitDied   bool   // the probe process died before `started` when this unit was linked alone
}

func (u *Unit) PkgName() string {
	if u.Cfg != nil && u.Cfg.Meta.Pkg != nil {
		return *u.Cfg.Meta.Pkg
	}
	return "main"
}
func (u *Unit) TypeName() string {
	if u.Cfg != nil && u.Cfg.Meta.ContainerType != nil {
		return *u.Cfg.Meta.ContainerType
	}
	return "Gontainer"
}
func (u *Unit) CtorName() string {
	if u.Cfg != nil && u.Cfg.Meta.ContainerConstructor != nil {
		return *u.Cfg.Meta.ContainerConstructor
	}
	return "NewGontainer"
}

// Prior is an earlier run over the same output path: all input files of both runs are written before it, so the file it leaves at
// -o is newer than every input of the run that counts.
type Prior struct {
	Files    []File
	Patterns []string
	Flags    []string
	Run      cli.Run
}

type Lab struct {
	W     *work.WS
	lang  string // extra -lang for compile() (CompileAtLang)
	mu    sync.Mutex
	batch int
	Stats map[string]int
}

func instantiate(tpl, pkgName, pkgID string) string {
	return strings.ReplaceAll(strings.ReplaceAll(tpl, "__PKGNAME__", pkgName), "__PKGID__", pkgID)
}

// NewLab initialises the probe module and instantiates the fixture packages.
func NewLab(w *work.WS) (*Lab, error) {
	if err := w.InitMod(); err != nil {
		return nil, err
	}
	l := &Lab{W: w, Stats: map[string]int{}}
	tt, err := os.ReadFile(filepath.Join(w.Mod, "tpl", "types.go.tpl"))
	if err != nil {
		return nil, err
	}
	ft, err := os.ReadFile(filepath.Join(w.Mod, "tpl", "funcs.go.tpl"))
	if err != nil {
		return nil, err
	}
	helpers, err := w.HelpersVersion()
	if err != nil {
		return nil, err
	}
	sum, _ := os.ReadFile(filepath.Join(w.Repo, "go.sum"))
	extra := ""
	for _, p := range FixturePkgs {
		dir := filepath.Join(w.Mod, strings.TrimPrefix(p.Path, "fixt/"))
		if !strings.HasPrefix(p.Path, "fixt/") {
			// a package of another module, replaced by a local directory (the two modules replace each other)
			dir = filepath.Join(w.Dir, "ext", strings.ReplaceAll(p.Path, "/", "_"))
			gm := "module " + p.Path + "\n\ngo 1.21\n\nrequire (\n\tfixt v0.0.0\n\tgithub.com/gontainer/gontainer-helpers/v3 " + helpers + "\n)\n\nreplace fixt => " + w.Mod + "\n"
			if err := work.WriteFile(filepath.Join(dir, "go.mod"), []byte(gm)); err != nil {
				return nil, err
			}
			_ = work.WriteFile(filepath.Join(dir, "go.sum"), sum)
			extra += "\nrequire " + p.Path + " v0.0.0\n\nreplace " + p.Path + " => " + dir + "\n"
		}
		if err := work.WriteFile(filepath.Join(dir, "types.go"), []byte(instantiate(string(tt), p.Name, p.Path))); err != nil {
			return nil, err
		}
		if err := work.WriteFile(filepath.Join(dir, "funcs.go"), []byte(instantiate(string(ft), p.Name, p.Path))); err != nil {
			return nil, err
		}
	}
	if extra != "" {
		gm, err := os.ReadFile(filepath.Join(w.Mod, "go.mod"))
		if err != nil {
			return nil, err
		}
		if err := os.WriteFile(filepath.Join(w.Mod, "go.mod"), append(gm, []byte(extra)...), 0o644); err != nil {
			return nil, err
		}
	}
	return l, nil
}

func (l *Lab) localFiles(dir, pkgName string) error {
	tt, _ := os.ReadFile(filepath.Join(l.W.Mod, "tpl", "types.go.tpl"))
	ft, _ := os.ReadFile(filepath.Join(l.W.Mod, "tpl", "funcs.go.tpl"))
	if err := work.WriteFile(filepath.Join(dir, "local_types.go"), []byte(instantiate(string(tt), pkgName, "."))); err != nil {
		return err
	}
	return work.WriteFile(filepath.Join(dir, "local_funcs.go"), []byte(instantiate(string(ft), pkgName, ".")))
}

// LocalFiles writes the fixture symbols of the "current package" into dir.
func (l *Lab) LocalFiles(dir, pkgName string) error { return l.localFiles(dir, pkgName) }

func (l *Lab) unitDir(u *Unit) string {
	if u.Stub {
		return filepath.Join(l.W.Mod, "stub", u.ID)
	}
	return filepath.Join(l.W.Mod, "gen", u.ID)
}

// Generate runs the tool for every unit (in parallel) and records the runs.
func (l *Lab) Generate(units []*Unit, workers int) {
	var wg sync.WaitGroup
	ch := make(chan *Unit)
	for k := 0; k < workers; k++ {
		wg.Add(1)
		go func() {
			defer wg.Done()
			for u := range ch {
				l.generate(u)
			}
		}()
	}
	for _, u := range units {
		ch <- u
	}
	close(ch)
	wg.Wait()
}

func (l *Lab) generate(u *Unit) {
	cwd := filepath.Join(l.W.Dir, "t", u.ID+suffix(u), "in")
	_ = os.MkdirAll(cwd, 0o755)
	piped := map[int]bool{}
	for _, k := range u.Piped {
		piped[k] = true
	}
	var pipes []*work.Fifo
	for k, f := range u.Files {
		if piped[k] {
			_ = os.MkdirAll(filepath.Dir(filepath.Join(cwd, f.Name)), 0o755)
			if p, err := work.FeedFifo(filepath.Join(cwd, f.Name), []byte(f.Content)); err == nil {
				pipes = append(pipes, p)
				continue
			}
		}
		_ = work.WriteFile(filepath.Join(cwd, f.Name), []byte(f.Content))
	}
	defer func() {
		for _, p := range pipes {
			o, c := p.Stop()
			u.PipeSeen = append(u.PipeSeen, o && c)
		}
	}()
	dir := l.unitDir(u)
	_ = os.MkdirAll(dir, 0o755)
	out := filepath.Join(dir, "gen.go")
	if u.Previous != "" {
		_ = os.WriteFile(out, []byte(u.Previous), 0o644)
	}
	if u.Prior != nil {
		pcwd := filepath.Join(filepath.Dir(cwd), "earlier")
		for _, f := range u.Prior.Files {
			_ = work.WriteFile(filepath.Join(pcwd, f.Name), []byte(f.Content))
		}
		pa := []string{"build"}
		for _, p := range u.Prior.Patterns {
			pa = append(pa, "-i", p)
		}
		pa = append(pa, "-o", out)
		pa = append(pa, u.Prior.Flags...)
		if u.Stub {
			pa = append(pa, "--stub")
		}
		u.Prior.Run = cli.Do(l.W, "", append(l.W.SaneEnv(), u.Env...), pcwd, out, pa...)
	}
	args := []string{"build"}
	pats := u.Patterns
	if pats == nil {
		for _, f := range u.Files {
			pats = append(pats, f.Name)
		}
	}
	for _, p := range pats {
		args = append(args, "-i", p)
	}
	args = append(args, "-o", out)
	args = append(args, u.Flags...)
	if u.Stub {
		args = append(args, "--stub")
	}
	env := l.W.SaneEnv()
	env = append(env, u.Env...)
	u.Run = cli.Do(l.W, "", env, cwd, out, args...)
	u.Accepted = u.Run.Res.Exit == 0
	if u.Accepted {
		b, err := os.ReadFile(out)
		if err == nil {
			u.Source = string(b)
		}
		_ = l.localFiles(dir, u.PkgName())
		if u.PkgName() == "main" {
			m := "package main\n\nfunc main() {}\n"
			if !u.Stub {
				m = fmt.Sprintf("package main\n\nimport \"fixt/probe\"\n\nfunc main() {\n\tprobe.Register(%q, func() interface{} { return %s() })\n\tprobe.Main()\n}\n", u.ID, u.CtorName())
			}
			_ = work.WriteFile(filepath.Join(dir, "zz_main.go"), []byte(m))
		}
	} else {
		_ = os.RemoveAll(dir)
	}
}

func suffix(u *Unit) string {
	if u.Stub {
		return "-stub"
	}
	return ""
}

var rePkgHeader = regexp.MustCompile(`^# (\S+)`)

// Compile runs gofmt and `go build` over all accepted units of one kind (normal or stub)
// and attributes failures per package.
func (l *Lab) Compile(units []*Unit) error {
	var normal, stub []*Unit
	for _, u := range units {
		if !u.Accepted {
			continue
		}
		if u.Stub {
			stub = append(stub, u)
		} else {
			normal = append(normal, u)
		}
	}
	if err := l.compile(normal, false); err != nil {
		return err
	}
	return l.compile(stub, true)
}

// RuntimeLang is the language version in the go.mod of the pinned gontainer-helpers module ("go1.14"): code that type-checks
// "against the pinned runtime" has to type-check in a consumer module that declares no more than the runtime does.
func (l *Lab) RuntimeLang() string {
	v, err := l.W.HelpersVersion()
	if err != nil {
		return ""
	}
	r := l.W.Go(l.W.Mod, false, time.Minute, "list", "-m", "-f", "{{.GoVersion}}", "github.com/gontainer/gontainer-helpers/v3@"+v)
	g := strings.TrimSpace(r.Stdout)
	if r.Exit != 0 || g == "" {
		return ""
	}
	if p := strings.Split(g, "."); len(p) > 2 {
		g = p[0] + "." + p[1]
	}
	return "go" + g
}

// CompileAtLang compiles the generated packages of units that already compiled once more, with the compiler's language version set
// to lang (the packages named on the command line only: generated file + the fixture symbols of its own package). Sets LangErr.
func (l *Lab) CompileAtLang(units []*Unit, lang string) error {
	var normal, stub []*Unit
	type saved struct {
		c, g  bool
		e, gd string
	}
	keep := map[*Unit]saved{}
	for _, u := range units {
		if !u.Accepted || !u.Compiled {
			continue
		}
		keep[u] = saved{u.Compiled, u.GofmtOK, u.CompileErr, u.GofmtDiff}
		u.CompileErr = ""
		if u.Stub {
			stub = append(stub, u)
		} else {
			normal = append(normal, u)
		}
	}
	l.lang = lang
	err := l.compile(normal, false)
	if err == nil {
		err = l.compile(stub, true)
	}
	l.lang = ""
	for u, s := range keep {
		u.LangTried = err == nil
		if !u.Compiled {
			u.LangErr = u.CompileErr
			if u.LangErr == "" {
				u.LangErr = "(no message attributed)"
			}
		}
		u.Compiled, u.GofmtOK, u.CompileErr, u.GofmtDiff = s.c, s.g, s.e, s.gd
	}
	return err
}

func (l *Lab) compile(units []*Unit, stub bool) error {
	if len(units) == 0 {
		return nil
	}
	byPath := map[string]*Unit{}
	var files []string
	for _, u := range units {
		sub := "gen"
		if stub {
			sub = "stub"
		}
		byPath["fixt/"+sub+"/"+u.ID] = u
		files = append(files, filepath.Join(l.unitDir(u), "gen.go"))
		u.Compiled = true
		u.GofmtOK = true
	}
	// gofmt stability
	for i := 0; i < len(files); i += 200 {
		j := i + 200
		if j > len(files) {
			j = len(files)
		}
		r := work.Run("gofmt", l.W.Mod, l.W.GoEnv(), 5*time.Minute, nil, append([]string{"-l"}, files[i:j]...)...)
		for _, ln := range work.Lines(r.Stdout + "\n" + r.Stderr) {
			ln = strings.TrimSpace(ln)
			if ln == "" {
				continue
			}
			p := ln
			if k := strings.Index(ln, ".go:"); k > 0 { // syntax error lines: path:line:col: msg
				p = ln[:k+3]
			}
			for _, u := range units {
				if filepath.Join(l.unitDir(u), "gen.go") == p {
					u.GofmtOK = false
					u.GofmtDiff = ln
				}
			}
		}
	}
	// compile gate: every package is independent, so one failure never hides another
	pkgs := make([]string, 0, len(units))
	for p := range byPath {
		pkgs = append(pkgs, p)
	}
	sort.Strings(pkgs)
	args := []string{"build", "-gcflags=-e"}
	if l.lang != "" {
		args = []string{"build", "-gcflags=-e -lang=" + l.lang}
	}
	if stub {
		args = append(args, "-tags", "gontainerstub")
	}
	sub := "gen/"
	if stub {
		sub = "stub/"
	}
	rePath := regexp.MustCompile(`(?:^|[\s/])` + sub + `(c[0-9]+[a-z0-9_]*)/`)
	for i := 0; i < len(pkgs); i += 400 {
		j := i + 400
		if j > len(pkgs) {
			j = len(pkgs)
		}
		remaining := append([]string(nil), pkgs[i:j]...)
		// repeat until the remaining set builds: a load-stage error (e.g. an import that does not exist)
		// aborts the whole build, so the other packages have to be built again without the offender
		for round := 0; len(remaining) > 0; round++ {
			r := l.W.Go(l.W.Mod, false, 30*time.Minute, append(args, remaining...)...)
			if r.TimedOut {
				return fmt.Errorf("go build timed out")
			}
			if r.Exit == 0 {
				break
			}
			failed := map[string]bool{}
			var cur *Unit
			var misc []string
			for _, ln := range work.Lines(r.Stderr + "\n" + r.Stdout) {
				if m := rePkgHeader.FindStringSubmatch(ln); m != nil {
					cur = byPath[m[1]]
					if cur != nil {
						cur.Compiled = false
						failed[m[1]] = true
					}
					continue
				}
				if m := rePath.FindStringSubmatch(ln); m != nil {
					if u := byPath["fixt/"+sub+m[1]]; u != nil {
						u.Compiled = false
						failed["fixt/"+sub+m[1]] = true
						if len(u.CompileErr) < 4000 {
							u.CompileErr += ln + "\n"
						}
						continue
					}
				}
				// "found packages X (gen.go) and Y (local_funcs.go) in <dir>": the generated file declares another package name
				// than the configuration says
				if k := strings.Index(ln, "found packages "); k >= 0 {
					if d := strings.LastIndex(ln, " in "); d > k {
						dir := strings.TrimSpace(ln[d+4:])
						hit := false
						for path, u := range byPath {
							if strings.HasSuffix(dir, strings.TrimPrefix(path, "fixt/")) {
								u.Compiled = false
								failed[path] = true
								u.CompileErr += ln + "\n"
								hit = true
							}
						}
						if hit {
							continue
						}
					}
				}
				if cur != nil {
					if len(cur.CompileErr) < 4000 {
						cur.CompileErr += ln + "\n"
					}
				} else if strings.TrimSpace(ln) != "" {
					misc = append(misc, ln)
				}
			}
			if len(failed) == 0 {
				return fmt.Errorf("go build failed outside generated packages: %s", strings.Join(misc, " | "))
			}
			var next []string
			for _, p := range remaining {
				if !failed[p] {
					next = append(next, p)
				}
			}
			remaining = next
			if round > 400 {
				return fmt.Errorf("go build: too many rounds")
			}
		}
	}
	return nil
}

// RunProbes links compiled normal units that have ops into probe binaries (batches) and runs them.
func (l *Lab) RunProbes(units []*Unit, batchSize int, race bool) error {
	var todo []*Unit
	for _, u := range units {
		if u.Accepted && u.Compiled && !u.Stub && len(u.Ops) > 0 {
			todo = append(todo, u)
		}
	}
	var mains []*Unit // package main units need their own binary
	var libs []*Unit
	for _, u := range todo {
		if u.PkgName() == "main" {
			mains = append(mains, u)
		} else {
			libs = append(libs, u)
		}
	}
	var batches [][]*Unit
	for i := 0; i < len(libs); i += batchSize {
		j := i + batchSize
		if j > len(libs) {
			j = len(libs)
		}
		batches = append(batches, libs[i:j])
	}
	var firstErr error
	var emu sync.Mutex
	var wg sync.WaitGroup
	sem := make(chan struct{}, 4)
	for _, b := range batches {
		b := b
		wg.Add(1)
		sem <- struct{}{}
		go func() {
			defer wg.Done()
			defer func() { <-sem }()
			if err := l.runBatch(b, race, 0); err != nil {
				emu.Lock()
				if firstErr == nil {
					firstErr = err
				}
				emu.Unlock()
			}
		}()
	}
	for _, u := range mains {
		u := u
		wg.Add(1)
		sem <- struct{}{}
		go func() {
			defer wg.Done()
			defer func() { <-sem }()
			if err := l.runMainUnit(u, race); err != nil {
				emu.Lock()
				if firstErr == nil {
					firstErr = err
				}
				emu.Unlock()
			}
		}()
	}
	wg.Wait()
	return firstErr
}

func (l *Lab) nextBatch() int {
	l.mu.Lock()
	defer l.mu.Unlock()
	l.batch++
	return l.batch
}

const ctorsTable = `
	probe.Ctors["fixt/pa.New"] = pa.New
	probe.Ctors["fixt/pa.NewVal"] = pa.NewVal
	probe.Ctors["fixt/pa.NewErr"] = pa.NewErr
	probe.Ctors["fixt/pb.New"] = pb.New
	probe.Ctors["fixt/pb.MkVal"] = pb.MkVal
	probe.Ctors["fixt/pa.DecSame"] = pa.DecSame
	probe.Ctors["fixt/pb.Dec"] = pb.Dec
`

func (l *Lab) runBatch(b []*Unit, race bool, depth int) error {
	n := l.nextBatch()
	dir := filepath.Join(l.W.Mod, "cmd", fmt.Sprintf("p%04d", n))
	var sb strings.Builder
	sb.WriteString("package main\n\nimport (\n\t\"fixt/probe\"\n\t\"fixt/pa\"\n\t\"fixt/pb\"\n")
	for _, u := range b {
		fmt.Fprintf(&sb, "\t%s \"fixt/gen/%s\"\n", u.ID, u.ID)
	}
	sb.WriteString(")\n\nfunc main() {\n" + ctorsTable)
	for _, u := range b {
		fmt.Fprintf(&sb, "\tprobe.Register(%q, func() interface{} { return %s.%s() })\n", u.ID, u.ID, u.CtorName())
	}
	sb.WriteString("\tprobe.Main()\n}\n")
	if err := work.WriteFile(filepath.Join(dir, "main.go"), []byte(sb.String())); err != nil {
		return err
	}
	bin := filepath.Join(dir, "probe.bin")
	args := []string{"build", "-o", bin}
	if race {
		args = append(args, "-race")
	}
	args = append(args, ".")
	r := l.W.Go(dir, race, 30*time.Minute, args...)
	if r.Exit != 0 {
		// a unit whose constructor name/type is not what the config says makes the probe main fail to
		// compile: bisect so that the offending unit is identified and the others still run
		if len(b) == 1 {
			b[0].ProbeErr = "probe main does not compile: " + r.Stderr
			return nil
		}
		mid := len(b) / 2
		if err := l.runBatch(b[:mid], race, depth+1); err != nil {
			return err
		}
		return l.runBatch(b[mid:], race, depth+1)
	}
	return l.execProbe(bin, dir, b, race, depth)
}

func (l *Lab) execProbe(bin, dir string, b []*Unit, race bool, depth int) error {
	type cs struct {
		Name string `json:"name"`
		Ops  []Op   `json:"ops"`
	}
	var script struct {
		Containers []cs `json:"containers"`
	}
	for _, u := range b {
		script.Containers = append(script.Containers, cs{Name: u.ID, Ops: u.Ops})
	}
	sj, _ := json.Marshal(script)
	sp := filepath.Join(dir, "script.json")
	op := filepath.Join(dir, "out.jsonl")
	_ = os.WriteFile(sp, sj, 0o644)
	env := append(l.W.SaneEnv(), "GORACE=halt_on_error=0 log_path="+filepath.Join(dir, "race"))
	r := work.Run(bin, dir, env, 20*time.Minute, nil, sp, op)
	_ = os.WriteFile(filepath.Join(dir, "stderr.txt"), []byte(r.Stderr), 0o644)
	started, done := false, false
	byID := map[string]*Unit{}
	for _, u := range b {
		byID[u.ID] = u
		u.Results = nil
	}
	var lastBegin *Res
	if f, err := os.Open(op); err == nil {
		sc := bufio.NewScanner(f)
		sc.Buffer(make([]byte, 1<<20), 1<<28)
		for sc.Scan() {
			var x Res
			if json.Unmarshal(sc.Bytes(), &x) != nil {
				continue
			}
			switch x.Phase {
			case "started":
				started = true
			case "done":
				done = true
			case "begin":
				xx := x
				lastBegin = &xx
			case "end":
				lastBegin = nil
				if u := byID[x.C]; u != nil {
					u.Results = append(u.Results, x)
				}
			}
		}
		f.Close()
	}
	if !started {
		// package initialisation of some linked unit died: bisect (C01's init() clause)
		if len(b) == 1 {
			b[0].InitDied = true
			b[0].ProbeErr = fmt.Sprintf("probe died before start (exit %d): %s", r.Exit, tail(r.Stderr, 2000))
			return nil
		}
		mid := len(b) / 2
		if err := l.runBatch(b[:mid], race, depth+1); err != nil {
			return err
		}
		return l.runBatch(b[mid:], race, depth+1)
	}
	if !done {
		// the process ended inside an operation: record where, then run the remaining units alone
		if lastBegin != nil {
			if u := byID[lastBegin.C]; u != nil {
				u.Results = append(u.Results, Res{C: lastBegin.C, I: lastBegin.I, Phase: "end", Died: true,
					Panic: fmt.Sprintf("process ended (exit %d, timeout=%v): %s", r.Exit, r.TimedOut, tail(r.Stderr, 3000))})
				u.ProbeErr = "probe process ended during an operation"
			}
		}
		var rest []*Unit
		seenDead := false
		for _, u := range b {
			if lastBegin != nil && u.ID == lastBegin.C {
				seenDead = true
				continue
			}
			if seenDead || len(u.Results) < len(u.Ops) {
				rest = append(rest, u)
			}
		}
		if len(rest) > 0 && len(rest) < len(b) {
			return l.runBatch(rest, race, depth+1)
		}
	}
	if race {
		l.collectRace(dir, b)
	}
	return nil
}

// RaceReports collected from GORACE log files of race-enabled probe runs.
var (
	raceMu      sync.Mutex
	RaceReports []string
)

func (l *Lab) collectRace(dir string, b []*Unit) {
	m, _ := filepath.Glob(filepath.Join(dir, "race.*"))
	for _, f := range m {
		bs, err := os.ReadFile(f)
		if err != nil {
			continue
		}
		for _, blk := range strings.Split(string(bs), "==================") {
			if strings.Contains(blk, "WARNING: DATA RACE") {
				raceMu.Lock()
				RaceReports = append(RaceReports, strings.TrimSpace(blk))
				raceMu.Unlock()
			}
		}
	}
}

func tail(s string, n int) string {
	if len(s) > n {
		return "…" + s[len(s)-n:]
	}
	return s
}

// runMainUnit handles `package main` outputs: the probe entry point is added to the package itself.
func (l *Lab) runMainUnit(u *Unit, race bool) error {
	dir := l.unitDir(u)
	bin := filepath.Join(dir, "probe.bin")
	args := []string{"build", "-o", bin}
	if race {
		args = append(args, "-race")
	}
	args = append(args, ".")
	r := l.W.Go(dir, race, 10*time.Minute, args...)
	if r.Exit != 0 {
		u.ProbeErr = "probe main (package main) does not compile: " + r.Stderr
		return nil
	}
	return l.execProbe(bin, dir, []*Unit{u}, race, 0)
}

// StubRes is what the stub probe reports for one stub unit.
type StubRes struct {
	C          string            `json:"c"`
	API        *API              `json:"api"`
	CtorSig    string            `json:"ctor_sig"`
	CtorPanics string            `json:"ctor_panics"`
	Calls      map[string]string `json:"calls"`
}

// RunStubProbe links compiled stub units (non-main) with -tags gontainerstub and inspects them.
func (l *Lab) RunStubProbe(units []*Unit) (map[string]*StubRes, error) {
	out := map[string]*StubRes{}
	var b []*Unit
	for _, u := range units {
		if u.Stub && u.Accepted && u.Compiled && u.PkgName() != "main" {
			b = append(b, u)
		}
	}
	for i := 0; i < len(b); i += 200 {
		j := i + 200
		if j > len(b) {
			j = len(b)
		}
		if err := l.stubBatch(b[i:j], out); err != nil {
			return out, err
		}
	}
	return out, nil
}

func (l *Lab) stubBatch(b []*Unit, out map[string]*StubRes) error {
	n := l.nextBatch()
	dir := filepath.Join(l.W.Mod, "cmd", fmt.Sprintf("s%04d", n))
	var sb strings.Builder
	sb.WriteString("package main\n\nimport (\n\t\"fixt/stubprobe\"\n")
	for _, u := range b {
		fmt.Fprintf(&sb, "\t%s \"fixt/stub/%s\"\n", u.ID, u.ID)
	}
	sb.WriteString(")\n\nfunc main() {\n")
	for _, u := range b {
		fmt.Fprintf(&sb, "\tstubprobe.Register(%q, %s.%s)\n", u.ID, u.ID, u.CtorName())
	}
	sb.WriteString("\tstubprobe.Main()\n}\n")
	if err := work.WriteFile(filepath.Join(dir, "main.go"), []byte(sb.String())); err != nil {
		return err
	}
	bin := filepath.Join(dir, "stubprobe.bin")
	r := l.W.Go(dir, false, 30*time.Minute, "build", "-tags", "gontainerstub", "-o", bin, ".")
	if r.Exit != 0 {
		if len(b) == 1 {
			b[0].ProbeErr = "stub probe main does not compile: " + r.Stderr
			return nil
		}
		mid := len(b) / 2
		if err := l.stubBatch(b[:mid], out); err != nil {
			return err
		}
		return l.stubBatch(b[mid:], out)
	}
	op := filepath.Join(dir, "out.jsonl")
	rr := work.Run(bin, dir, l.W.SaneEnv(), 10*time.Minute, nil, op)
	if f, err := os.Open(op); err == nil {
		sc := bufio.NewScanner(f)
		sc.Buffer(make([]byte, 1<<20), 1<<26)
		for sc.Scan() {
			var x StubRes
			if json.Unmarshal(sc.Bytes(), &x) == nil {
				xx := x
				out[x.C] = &xx
			}
		}
		f.Close()
	}
	if rr.Exit != 0 && len(b) > 1 {
		// init() of a stub package died: bisect
		mid := len(b) / 2
		if err := l.stubBatch(b[:mid], out); err != nil {
			return err
		}
		return l.stubBatch(b[mid:], out)
	}
	if rr.Exit != 0 {
		b[0].InitDied = true
		b[0].ProbeErr = "stub probe died: " + tail(rr.Stderr, 2000)
	}
	return nil
}
