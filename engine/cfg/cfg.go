// Package cfg is the abstract configuration model the generators produce. YAML text and
// the reference models' expectations are both derived from it, independently.
// It mirrors the documented schema (docs/*.md), not gontainer's input structs.
package cfg

import (
	"encoding/json"
	"fmt"
	"math"
	"strconv"
	"strings"
)

// Val is a YAML value as the author spelled it.
type Val struct {
	Kind string  `json:"kind"` // int uint float bool null str raw seq map
	I    int64   `json:"i,omitempty"`
	U    uint64  `json:"u,omitempty"`
	F    float64 `json:"-"`
	B    bool    `json:"b,omitempty"`
	S    string  `json:"s,omitempty"`
	Text string  `json:"text,omitempty"` // exact spelling for numbers/raw
}

func Int(i int64) Val     { return Val{Kind: "int", I: i, Text: strconv.FormatInt(i, 10)} }
func Uint(u uint64) Val   { return Val{Kind: "uint", U: u, Text: strconv.FormatUint(u, 10)} }
func Bool(b bool) Val     { return Val{Kind: "bool", B: b, Text: strconv.FormatBool(b)} }
func Null() Val           { return Val{Kind: "null", Text: "~"} }
func Str(s string) Val    { return Val{Kind: "str", S: s} }
func Raw(text string) Val { return Val{Kind: "raw", Text: text} }
func Float(f float64, text string) Val {
	if text == "" {
		switch {
		case math.IsNaN(f):
			text = ".nan"
		case math.IsInf(f, 1):
			text = ".inf"
		case math.IsInf(f, -1):
			text = "-.inf"
		default:
			text = strconv.FormatFloat(f, 'g', -1, 64)
			if !strings.ContainsAny(text, ".e") {
				text += ".0"
			}
		}
	}
	return Val{Kind: "float", F: f, Text: text}
}

func (v Val) IsStr() bool { return v.Kind == "str" }

// Go is the Go value yaml.v3 yields for this spelling.
func (v Val) Go() any {
	switch v.Kind {
	case "int":
		return int(v.I)
	case "uint":
		return v.U
	case "float":
		return v.F
	case "bool":
		return v.B
	case "null":
		return nil
	case "str":
		return v.S
	}
	return nil
}

func (v Val) String() string { return v.YAML() }

// YAML renders the value in flow-safe form. Strings are always double-quoted JSON-style
// (a subset of YAML double-quoted scalars).
func (v Val) YAML() string {
	if v.Kind == "str" {
		return QuoteYAML(v.S)
	}
	return v.Text
}

// QuoteYAML renders a double-quoted YAML scalar with escapes for everything non-printable.
func QuoteYAML(s string) string {
	var b strings.Builder
	b.WriteByte('"')
	for _, r := range s {
		switch {
		case r == '"':
			b.WriteString(`\"`)
		case r == '\\':
			b.WriteString(`\\`)
		case r == '\n':
			b.WriteString(`\n`)
		case r == '\t':
			b.WriteString(`\t`)
		case r == '\r':
			b.WriteString(`\r`)
		case r < 0x20 || r == 0x7f:
			fmt.Fprintf(&b, `\x%02x`, r)
		case r == 0x85 || r == 0xa0 || (r >= 0x80 && r < 0xa0):
			fmt.Fprintf(&b, `\u%04x`, r)
		case r == 0x2028 || r == 0x2029 || r == 0xfeff || r == 0xfffe || r == 0xffff:
			fmt.Fprintf(&b, `\u%04x`, r)
		case r > 0xffff:
			fmt.Fprintf(&b, `\U%08x`, r)
		case r >= 0xd800 && r <= 0xdfff:
			fmt.Fprintf(&b, `\u%04x`, 0xfffd)
		default:
			b.WriteRune(r)
		}
	}
	b.WriteByte('"')
	return b.String()
}

type KV struct {
	K string `json:"k"`
	V Val    `json:"v"`
}

type KS struct {
	K string `json:"k"`
	V string `json:"v"`
}

type Meta struct {
	Pkg                  *string `json:"pkg,omitempty"`
	ContainerType        *string `json:"container_type,omitempty"`
	ContainerConstructor *string `json:"container_constructor,omitempty"`
	DefaultMustGetter    *bool   `json:"default_must_getter,omitempty"`
	Imports              []KS    `json:"imports,omitempty"`
	Functions            []KS    `json:"functions,omitempty"`
}

func (m Meta) Empty() bool {
	return m.Pkg == nil && m.ContainerType == nil && m.ContainerConstructor == nil && m.DefaultMustGetter == nil && len(m.Imports) == 0 && len(m.Functions) == 0
}

type Call struct {
	Method string `json:"method"`
	Args   []Val  `json:"args"`
	Wither *bool  `json:"wither,omitempty"` // nil: two-element form
	NoArgs bool   `json:"noargs,omitempty"` // one-element form ["Method"]
}

type Tag struct {
	Name string `json:"name"`
	Prio *int   `json:"prio,omitempty"` // nil: plain string form
}

func (t Tag) Priority() int {
	if t.Prio == nil {
		return 0
	}
	return *t.Prio
}

type Service struct {
	Name        string  `json:"name"`
	Getter      *string `json:"getter,omitempty"`
	MustGetter  *bool   `json:"must_getter,omitempty"`
	Type        *string `json:"type,omitempty"`
	Value       *string `json:"value,omitempty"`
	Constructor *string `json:"constructor,omitempty"`
	Args        []Val   `json:"args,omitempty"`
	Calls       []Call  `json:"calls,omitempty"`
	Fields      []KV    `json:"fields,omitempty"`
	Tags        []Tag   `json:"tags,omitempty"`
	Scope       *string `json:"scope,omitempty"`
	Todo        *bool   `json:"todo,omitempty"`
}

func (s Service) IsTodo() bool { return s.Todo != nil && *s.Todo }

type Decorator struct {
	Tag       string `json:"tag"`
	Decorator string `json:"decorator"`
	Args      []Val  `json:"args,omitempty"`
}

type Config struct {
	Version    *Val        `json:"version,omitempty"`
	Meta       Meta        `json:"meta"`
	Params     []KV        `json:"params,omitempty"`
	Services   []Service   `json:"services,omitempty"`
	Decorators []Decorator `json:"decorators,omitempty"`
}

func P[T any](v T) *T { return &v }

// FixPkg is one package of the fixture universe (DESIGN 2.4): identical self-identifying symbols in each.
type FixPkg struct{ Path, Name string }

// FixturePkgs: same last element twice (pa), last element illegal as identifier (x-y.v2), last element equal to a
// package the template imports (fmt, os), and two packages of other modules whose import paths sort before and
// after everything the template itself imports (aaa.test/lib, zzz.test/lib; same package name).
var FixturePkgs = []FixPkg{
	{"fixt/pa", "pa"}, {"fixt/pb", "pb"}, {"fixt/deep/pa", "pa"}, {"fixt/x-y.v2", "xy"}, {"fixt/fmt", "fmt"}, {"fixt/os", "os"},
	{"aaa.test/lib", "lib"}, {"zzz.test/lib", "lib"},
}

// File is one input file of a run.
type File struct{ Name, Content string }

func (c *Config) Service(name string) *Service {
	for i := range c.Services {
		if c.Services[i].Name == name {
			return &c.Services[i]
		}
	}
	return nil
}

func (c *Config) Param(name string) *Val {
	for i := range c.Params {
		if c.Params[i].K == name {
			return &c.Params[i].V
		}
	}
	return nil
}

func (c *Config) Clone() Config {
	b, _ := json.Marshal(c)
	var n Config
	_ = json.Unmarshal(b, &n)
	// floats are not in JSON (NaN/Inf): restore from the original by position
	restoreFloats(c, &n)
	return n
}

func restoreFloats(src, dst *Config) {
	for i := range src.Params {
		dst.Params[i].V.F = src.Params[i].V.F
	}
	for i := range src.Services {
		for j := range src.Services[i].Args {
			dst.Services[i].Args[j].F = src.Services[i].Args[j].F
		}
		for j := range src.Services[i].Fields {
			dst.Services[i].Fields[j].V.F = src.Services[i].Fields[j].V.F
		}
		for j := range src.Services[i].Calls {
			for k := range src.Services[i].Calls[j].Args {
				dst.Services[i].Calls[j].Args[k].F = src.Services[i].Calls[j].Args[k].F
			}
		}
	}
	for i := range src.Decorators {
		for j := range src.Decorators[i].Args {
			dst.Decorators[i].Args[j].F = src.Decorators[i].Args[j].F
		}
	}
}

// ---------------------------------------------------------------------------------------
// YAML emission (block style at the top, flow style for leaves; key order as given)

func valList(vs []Val) string {
	parts := make([]string, len(vs))
	for i, v := range vs {
		parts[i] = v.YAML()
	}
	return "[" + strings.Join(parts, ", ") + "]"
}

func boolStr(b bool) string { return strconv.FormatBool(b) }

func (s Service) yaml(b *strings.Builder, ind string) {
	w := func(k, v string) { fmt.Fprintf(b, "%s%s: %s\n", ind, k, v) }
	if s.Todo != nil {
		w("todo", boolStr(*s.Todo))
	}
	if s.Getter != nil {
		w("getter", QuoteYAML(*s.Getter))
	}
	if s.MustGetter != nil {
		w("must_getter", boolStr(*s.MustGetter))
	}
	if s.Type != nil {
		w("type", QuoteYAML(*s.Type))
	}
	if s.Value != nil {
		w("value", QuoteYAML(*s.Value))
	}
	if s.Constructor != nil {
		w("constructor", QuoteYAML(*s.Constructor))
	}
	if s.Args != nil {
		w("arguments", valList(s.Args))
	}
	if s.Calls != nil && len(s.Calls) == 0 {
		w("calls", "[]")
	} else if s.Calls != nil {
		fmt.Fprintf(b, "%scalls:\n", ind)
		for _, c := range s.Calls {
			switch {
			case c.NoArgs:
				fmt.Fprintf(b, "%s  - [%s]\n", ind, QuoteYAML(c.Method))
			case c.Wither == nil:
				fmt.Fprintf(b, "%s  - [%s, %s]\n", ind, QuoteYAML(c.Method), valList(c.Args))
			default:
				fmt.Fprintf(b, "%s  - [%s, %s, %s]\n", ind, QuoteYAML(c.Method), valList(c.Args), boolStr(*c.Wither))
			}
		}
	}
	if s.Fields != nil {
		fmt.Fprintf(b, "%sfields:", ind)
		if len(s.Fields) == 0 {
			b.WriteString(" {}\n")
		} else {
			b.WriteString("\n")
			for _, f := range s.Fields {
				fmt.Fprintf(b, "%s  %s: %s\n", ind, QuoteYAML(f.K), f.V.YAML())
			}
		}
	}
	if s.Tags != nil {
		parts := make([]string, len(s.Tags))
		for i, t := range s.Tags {
			if t.Prio == nil {
				parts[i] = QuoteYAML(t.Name)
			} else {
				parts[i] = fmt.Sprintf(`{"name": %s, "priority": %d}`, QuoteYAML(t.Name), *t.Prio)
			}
		}
		w("tags", "["+strings.Join(parts, ", ")+"]")
	}
	if s.Scope != nil {
		w("scope", QuoteYAML(*s.Scope))
	}
}

func (s Service) hasAttrs() bool {
	return s.Todo != nil || s.Getter != nil || s.MustGetter != nil || s.Type != nil || s.Value != nil || s.Constructor != nil ||
		s.Args != nil || s.Calls != nil || s.Fields != nil || s.Tags != nil || s.Scope != nil
}

// YAML renders the configuration (or a fragment of one) as a YAML document.
func (c Config) YAML() string {
	var b strings.Builder
	if c.Version != nil {
		fmt.Fprintf(&b, "version: %s\n", c.Version.YAML())
	}
	if !c.Meta.Empty() {
		b.WriteString("meta:\n")
		m := c.Meta
		if m.Pkg != nil {
			fmt.Fprintf(&b, "  pkg: %s\n", QuoteYAML(*m.Pkg))
		}
		if m.ContainerType != nil {
			fmt.Fprintf(&b, "  container_type: %s\n", QuoteYAML(*m.ContainerType))
		}
		if m.ContainerConstructor != nil {
			fmt.Fprintf(&b, "  container_constructor: %s\n", QuoteYAML(*m.ContainerConstructor))
		}
		if m.DefaultMustGetter != nil {
			fmt.Fprintf(&b, "  default_must_getter: %s\n", boolStr(*m.DefaultMustGetter))
		}
		if len(m.Imports) > 0 {
			b.WriteString("  imports:\n")
			for _, kv := range m.Imports {
				fmt.Fprintf(&b, "    %s: %s\n", QuoteYAML(kv.K), QuoteYAML(kv.V))
			}
		}
		if len(m.Functions) > 0 {
			b.WriteString("  functions:\n")
			for _, kv := range m.Functions {
				fmt.Fprintf(&b, "    %s: %s\n", QuoteYAML(kv.K), QuoteYAML(kv.V))
			}
		}
	}
	if len(c.Params) > 0 {
		b.WriteString("parameters:\n")
		for _, kv := range c.Params {
			fmt.Fprintf(&b, "  %s: %s\n", QuoteYAML(kv.K), kv.V.YAML())
		}
	}
	if len(c.Services) > 0 {
		b.WriteString("services:\n")
		for _, s := range c.Services {
			if !s.hasAttrs() {
				fmt.Fprintf(&b, "  %s: {}\n", QuoteYAML(s.Name))
				continue
			}
			fmt.Fprintf(&b, "  %s:\n", QuoteYAML(s.Name))
			s.yaml(&b, "    ")
		}
	}
	if len(c.Decorators) > 0 {
		b.WriteString("decorators:\n")
		for _, d := range c.Decorators {
			fmt.Fprintf(&b, "  - tag: %s\n    decorator: %s\n", QuoteYAML(d.Tag), QuoteYAML(d.Decorator))
			if d.Args != nil {
				fmt.Fprintf(&b, "    arguments: %s\n", valList(d.Args))
			}
		}
	}
	if b.Len() == 0 {
		return "{}\n"
	}
	return b.String()
}
