// Package ref holds the reference models (oracles). Everything here is written from
// docs/*.md, README.md and the property statements; nothing imports gontainer code.
package ref

import (
	"strings"

	"verif/cfg"
)

// Imports is the alias table of a configuration (B.4).
type Imports struct {
	Aliases map[string]string
}

func NewImports(c *cfg.Config) Imports {
	m := map[string]string{}
	for _, kv := range c.Meta.Imports {
		m[kv.K] = kv.V // later key wins (YAML duplicate keys are rejected by the parser anyway)
	}
	return Imports{Aliases: m}
}

// Resolve returns the package path a written import denotes: "" = the current package.
// Whole first path segment equal to an alias → alias target + rest; otherwise the literal path.
func (im Imports) Resolve(written string) string {
	w := strings.Trim(written, `"`)
	if w == "." || w == "" {
		return ""
	}
	seg, rest := w, ""
	if i := strings.Index(w, "/"); i >= 0 {
		seg, rest = w[:i], w[i:]
	}
	if t, ok := im.Aliases[seg]; ok {
		return strings.Trim(t, `"`) + rest
	}
	return w
}

// SplitRef splits a written reference `[import.]symbolpath` (after any & or * prefix was removed).
// A quoted import ends at its closing quote; an unquoted import extends to the last dot.
func SplitRef(s string) (imp string, hasImp bool, sym string) {
	if strings.HasPrefix(s, `"`) {
		if j := strings.Index(s[1:], `"`); j >= 0 {
			imp = s[1 : 1+j]
			rest := s[2+j:]
			return imp, true, strings.TrimPrefix(rest, ".")
		}
		return "", false, s
	}
	body := s
	suffix := ""
	if strings.HasSuffix(body, "{}") {
		body = strings.TrimSuffix(body, "{}")
		suffix = "{}"
	}
	if i := strings.LastIndex(body, "."); i >= 0 {
		return body[:i], true, body[i+1:] + suffix
	}
	return "", false, s
}

// GoRef is a resolved reference to a Go symbol.
type GoRef struct {
	Ptr  bool   // leading & (values) or * (types)
	Deref bool  // leading * on a value: the pointed-to value
	Pkg  string // resolved package path; "" = current package
	Sym  string // symbol path: New, Global, Box.Inner, Obj{} …
}

func (im Imports) ParseValue(s string) GoRef {
	r := GoRef{}
	if strings.HasPrefix(s, "&") {
		r.Ptr = true
		s = s[1:]
	} else if strings.HasPrefix(s, "*") {
		r.Deref = true
		s = s[1:]
	}
	imp, has, sym := SplitRef(s)
	if has {
		r.Pkg = im.Resolve(imp)
	}
	r.Sym = sym
	return r
}

func (im Imports) ParseType(s string) GoRef {
	r := GoRef{}
	if strings.HasPrefix(s, "*") {
		r.Ptr = true
		s = s[1:]
	}
	imp, has, sym := SplitRef(s)
	if has {
		r.Pkg = im.Resolve(imp)
	}
	r.Sym = sym
	return r
}

func (im Imports) ParseFunc(s string) GoRef {
	imp, has, sym := SplitRef(s)
	r := GoRef{Sym: sym}
	if has {
		r.Pkg = im.Resolve(imp)
	}
	return r
}

// ArgKind classifies an argument per docs/SERVICES.md §Arguments (B.2).
type ArgKind int

const (
	ArgLiteral ArgKind = iota // non-string primitive
	ArgValue                  // !value expr
	ArgService                // @name
	ArgTagged                 // !tagged name
	ArgContainer              // $gontainer
	ArgPattern                // any other string
)

type Arg struct {
	Kind ArgKind
	Lit  any    // ArgLiteral
	Expr string // ArgValue: the expression; ArgService/ArgTagged: the name; ArgPattern: the string
	Bad  bool   // starts like a special form but does not complete it
}

func isSpace(b byte) bool { return b == ' ' || b == '\t' || b == '\n' || b == '\r' || b == '\f' || b == '\v' }

// afterKeyword returns the text after `kw` and at least one whitespace character.
func afterKeyword(s, kw string) (string, bool) {
	if !strings.HasPrefix(s, kw) {
		return "", false
	}
	rest := s[len(kw):]
	i := 0
	for i < len(rest) && isSpace(rest[i]) {
		i++
	}
	if i == 0 {
		return "", false
	}
	return rest[i:], true
}

func Classify(v cfg.Val) Arg {
	if v.Kind != "str" {
		return Arg{Kind: ArgLiteral, Lit: v.Go()}
	}
	s := v.S
	if rest, ok := afterKeyword(s, "!value"); ok {
		return Arg{Kind: ArgValue, Expr: rest}
	}
	if strings.HasPrefix(s, "@") {
		n := s[1:]
		return Arg{Kind: ArgService, Expr: n, Bad: !IsYamlToken(n)}
	}
	if rest, ok := afterKeyword(s, "!tagged"); ok {
		return Arg{Kind: ArgTagged, Expr: rest, Bad: !IsYamlToken(rest)}
	}
	if s == "$gontainer" {
		return Arg{Kind: ArgContainer}
	}
	return Arg{Kind: ArgPattern, Expr: s}
}

func isAlpha(c byte) bool { return (c >= 'A' && c <= 'Z') || (c >= 'a' && c <= 'z') }
func isAlnum(c byte) bool { return isAlpha(c) || (c >= '0' && c <= '9') }

// IsYamlToken: a letter, then alphanumerics optionally separated by single `.`, `-` or `_`
// (no doubled or trailing separators). Names of parameters, services, tags and aliases.
func IsYamlToken(s string) bool {
	if len(s) == 0 || !isAlpha(s[0]) {
		return false
	}
	for i := 1; i < len(s); i++ {
		c := s[i]
		switch {
		case isAlnum(c):
		case c == '.' || c == '-' || c == '_':
			if i+1 >= len(s) || !isAlnum(s[i+1]) {
				return false
			}
		default:
			return false
		}
	}
	return true
}

// IsGoToken: [A-Za-z][A-Za-z0-9_]*
func IsGoToken(s string) bool {
	if len(s) == 0 || !isAlpha(s[0]) {
		return false
	}
	for i := 1; i < len(s); i++ {
		if !isAlnum(s[i]) && s[i] != '_' {
			return false
		}
	}
	return true
}
