// Package cfg is the abstract configuration model the generators produce. YAML text and
// the reference models' expectations are both derived from it, independently.
// It mirrors the documented schema (docs/*.md), not gontainer's input structs.
package cfg

import (
	"encoding/json"
	"fmt"
	"math"
	"strconv"
	"strings"
)

// Val is a YAML value as the author spelled it.
type Val struct {
	Kind string  `json:"kind"` // int uint float bool null str raw seq map
	I    int64   `json:"i,omitempty"`
	U    uint64  `json:"u,omitempty"`
	F    float64 `json:"-"`
	B    bool    `json:"b,omitempty"`
	S    string  `json:"s,omitempty"`
	Text string  `json:"text,omitempty"` // exact spelling for numbers/raw
}

func Int(i int64) Val     { return Val{Kind: "int", I: i, Text: strconv.FormatInt(i, 10)} }
func Uint(u uint64) Val   { return Val{Kind: "uint", U: u, Text: strconv.FormatUint(u, 10)} }
func Bool(b bool) Val     { return Val{Kind: "bool", B: b, Text: strconv.FormatBool(b)} }
func Null() Val           { return Val{Kind: "null", Text: "~"} }
func Str(s string) Val    { return Val{Kind: "str", S: s} }
func Raw(text string) Val { return Val{Kind: "raw", Text: text} }
func Float(f float64, text string) Val {
	if text == "" {
		switch {
		case math.IsNaN(f):
			text = ".nan"
		case math.IsInf(f, 1):
			text = ".inf"
		case math.IsInf(f, -1):
			text = "-.inf"
		default:
			text = strconv.FormatFloat(f, 'g', -1, 64)
			if !strings.ContainsAny(text, ".e") {
				text += ".0"
			}
		}
	}
	return Val{Kind: "float", F: f, Text: text}
}

func (v Val) IsStr() bool { return v.Kind == "str" }

// Go is the Go value yaml.v3 yields for this spelling.
func (v Val) Go() any {
	switch v.Kind {
	case "int":
		return int(v.I)
	case "uint":
		return v.U
	case "float":
		return v.F
	case "bool":
		return v.B
	case "null":
		return nil
	case "str":
		return v.S
	}
	return nil
}

func (v Val) String() string { return v.YAML() }

// YAML renders the value in flow-safe form. Strings are always double-quoted JSON-style
// (a subset of YAML double-quoted scalars).
func (v Val) YAML() string {
	if v.Kind == "str" {
		return QuoteYAML(v.S)
	}
	return v.Text
}

// QuoteYAML renders a double-quoted YAML scalar with escapes for everything non-printable.
func QuoteYAML(s string) string {
	var b strings.Builder
	b.WriteByte('"')
	for _, r := range s {
		switch {
		case r == '"':
			b.WriteString(`\"`)
		case r == '\\':
			b.WriteString(`\\`)
		case r == '\n':
			b.WriteString(`\n`)
		case r == '\t':
			b.WriteString(`\t`)
		case r == '\r':
			b.WriteString(`\r`)
		case r < 0x20 || r == 0x7f:
			fmt.Fprintf(&b, `\x%02x`, r)
		case r == 0x85 || r == 0xa0 || (r >= 0x80 && r < 0xa0):
			fmt.Fprintf(&b, `\u%04x`, r)
		case r == 0x2028 || r == 0x2029 || r == 0xfeff || r == 0xfffe || r == 0xffff:
			fmt.Fprintf(&b, `\u%04x`, r)
		case r > 0xffff:
			fmt.Fprintf(&b, `\U%08x`, r)
		case r >= 0xd800 && r <= 0xdfff:
			fmt.Fprintf(&b, `\u%04x`, 0xfffd)
		default:
			b.WriteRune(r)
		}
	}
	b.WriteByte('"')
	return b.String()
}

type KV struct {
	K string `json:"k"`
	V Val    `json:"v"`
}

type KS struct {
	K string `json:"k"`
	V string `json:"v"`
}

type Meta struct {
	Pkg                  *string `json:"pkg,omitempty"`
	ContainerType        *string `json:"container_type,omitempty"`
	ContainerConstructor *string `json:"container_constructor,omitempty"`
	DefaultMustGetter    *bool   `json:"default_must_getter,omitempty"`
	Imports              []KS    `json:"imports,omitempty"`
	Functions            []KS    `json:"functions,omitempty"`
}

func (m Meta) Empty() bool {
	return m.Pkg == nil && m.ContainerType == nil && m.ContainerConstructor == nil && m.DefaultMustGetter == nil && len(m.Imports) == 0 && len(m.Functions) == 0
}

type Call struct {
	Method string `json:"method"`
	Args   []Val  `json:"args"`
	Wither *bool  `json:"wither,omitempty"` // nil: two-element form
	NoArgs bool   `json:"noargs,omitempty"` // one-element form ["Method"]
}

type Tag struct {
	Name string `json:"name"`
	Prio *int   `json:"prio,omitempty"` // nil: plain string form
}

func (t Tag) Priority() int {
	if t.Prio == nil {
		return 0
	}
	return *t.Prio
}

type Service struct {
	Name        string  `json:"name"`
	Getter      *string `json:"getter,omitempty"`
	MustGetter  *bool   `json:"must_getter,omitempty"`
	Type        *string `json:"type,omitempty"`
	Value       *string `json:"value,omitempty"`
	Constructor *string `json:"constructor,omitempty"`
	Args        []Val   `json:"args,omitempty"`
	Calls       []Call  `json:"calls,omitempty"`
	Fields      []KV    `json:"fields,omitempty"`
	Tags        []Tag   `json:"tags,omitempty"`
	Scope       *string `json:"scope,omitempty"`
	Todo        *bool   `json:"todo,omitempty"`
}

func (s Service) IsTodo() bool { return s.Todo != nil && *s.Todo }

type Decorator struct {
	Tag       string `json:"tag"`
	Decorator string `json:"decorator"`
	Args      []Val  `json:"args,omitempty"`
}

type Config struct {
	Version    *Val        `json:"version,omitempty"`
	Meta       Meta        `json:"meta"`
	Params     []KV        `json:"params,omitempty"`
	Services   []Service   `json:"services,omitempty"`
	Decorators []Decorator `json:"decorators,omitempty"`
}

func P[T any](v T) *T { return &v }

// FixPkg is one package of the fixture universe (DESIGN 2.4): identical self-identifying symbols in each.
type FixPkg struct{ Path, Name string }

// FixturePkgs: same last element twice (pa), last element illegal as identifier (x-y.v2), last element equal to a
// package the template imports (fmt, os), and two packages of other modules whose import paths sort before and
// after everything the template itself imports (aaa.test/lib, zzz.test/lib; same package name).
var FixturePkgs = []FixPkg{
	{"fixt/pa", "pa"}, {"fixt/pb", "pb"}, {"fixt/deep/pa", "pa"}, {"fixt/x-y.v2", "xy"}, {"fixt/fmt", "fmt"}, {"fixt/os", "os"},
	{"aaa.test/lib", "lib"}, {"zzz.test/lib", "lib"},
	// the last path element looks like `package.Exported`: only the whole text before the last dot of an unquoted reference is the path
	{"fixt/lib.Ext", "libext"}, {"fixt/my.Lib/v2.Beta", "v2beta"},
}

// File is one input file of a run.
type File struct{ Name, Content string }

func (c *Config) Service(name string) *Service {
	for i := range c.Services {
		if c.Services[i].Name == name {
			return &c.Services[i]
		}
	}
	return nil
}

func (c *Config) Param(name string) *Val {
	for i := range c.Params {
		if c.Params[i].K == name {
			return &c.Params[i].V
		}
	}
	return nil
}

func (c *Config) Clone() Config {
	b, _ := json.Marshal(c)
	var n Config
	_ = json.Unmarshal(b, &n)
	// floats are not in JSON (NaN/Inf): restore from the original by position
	restoreFloats(c, &n)
	return n
}

func restoreFloats(src, dst *Config) {
	for i := range src.Params {
		dst.Params[i].V.F = src.Params[i].V.F
	}
	for i := range src.Services {
		for j := range src.Services[i].Args {
			dst.Services[i].Args[j].F = src.Services[i].Args[j].F
		}
		for j := range src.Services[i].Fields {
			dst.Services[i].Fields[j].V.F = src.Services[i].Fields[j].V.F
		}
		for j := range src.Services[i].Calls {
			for k := range src.Services[i].Calls[j].Args {
				dst.Services[i].Calls[j].Args[k].F = src.Services[i].Calls[j].Args[k].F
			}
		}
	}
	for i := range src.Decorators {
		for j := range src.Decorators[i].Args {
			dst.Decorators[i].Args[j].F = src.Decorators[i].Args[j].F
		}
	}
}

// ---------------------------------------------------------------------------------------
// YAML emission (block style at the top, flow style for leaves; key order as given)

func valList(vs []Val) string {
	parts := make([]string, len(vs))
	for i, v := range vs {
		parts[i] = v.YAML()
	}
	return "[" + strings.Join(parts, ", ") + "]"
}

func boolStr(b bool) string { return strconv.FormatBool(b) }

func (s Service) yaml(b *strings.Builder, ind string) {
	w := func(k, v string) { fmt.Fprintf(b, "%s%s: %s\n", ind, k, v) }
	if s.Todo != nil {
		w("todo", boolStr(*s.Todo))
	}
	if s.Getter != nil {
		w("getter", QuoteYAML(*s.Getter))
	}
	if s.MustGetter != nil {
		w("must_getter", boolStr(*s.MustGetter))
	}
	if s.Type != nil {
		w("type", QuoteYAML(*s.Type))
	}
	if s.Value != nil {
		w("value", QuoteYAML(*s.Value))
	}
	if s.Constructor != nil {
		w("constructor", QuoteYAML(*s.Constructor))
	}
	if s.Args != nil {
		w("arguments", valList(s.Args))
	}
	if s.Calls != nil && len(s.Calls) == 0 {
		w("calls", "[]")
	} else if s.Calls != nil {
		fmt.Fprintf(b, "%scalls:\n", ind)
		for _, c := range s.Calls {
			switch {
			case c.NoArgs:
				fmt.Fprintf(b, "%s  - [%s]\n", ind, QuoteYAML(c.Method))
			case c.Wither == nil:
				fmt.Fprintf(b, "%s  - [%s, %s]\n", ind, QuoteYAML(c.Method), valList(c.Args))
			default:
				fmt.Fprintf(b, "%s  - [%s, %s, %s]\n", ind, QuoteYAML(c.Method), valList(c.Args), boolStr(*c.Wither))
			}
		}
	}
	if s.Fields != nil {
		fmt.Fprintf(b, "%sfields:", ind)
		if len(s.Fields) == 0 {
			b.WriteString(" {}\n")
		} else {
			b.WriteString("\n")
			for _, f := range s.Fields {
				fmt.Fprintf(b, "%s  %s: %s\n", ind, QuoteYAML(f.K), f.V.YAML())
			}
		}
	}
	if s.Tags != nil {
		parts := make([]string, len(s.Tags))
		for i, t := range s.Tags {
			if t.Prio == nil {
				parts[i] = QuoteYAML(t.Name)
			} else {
				parts[i] = fmt.Sprintf(`{"name": %s, "priority": %d}`, QuoteYAML(t.Name), *t.Prio)
			}
		}
		w("tags", "["+strings.Join(parts, ", ")+"]")
	}
	if s.Scope != nil {
		w("scope", QuoteYAML(*s.Scope))
	}
}

func (s Service) hasAttrs() bool {
	return s.Todo != nil || s.Getter != nil || s.MustGetter != nil || s.Type != nil || s.Value != nil || s.Constructor != nil ||
		s.Args != nil || s.Calls != nil || s.Fields != nil || s.Tags != nil || s.Scope != nil
}

// YAML renders the configuration (or a fragment of one) as a YAML document.
func (c Config) YAML() string {
	var b strings.Builder
	if c.Version != nil {
		fmt.Fprintf(&b, "version: %s\n", c.Version.YAML())
	}
	if !c.Meta.Empty() {
		b.WriteString("meta:\n")
		m := c.Meta
		if m.Pkg != nil {
			fmt.Fprintf(&b, "  pkg: %s\n", QuoteYAML(*m.Pkg))
		}
		if m.ContainerType != nil {
			fmt.Fprintf(&b, "  container_type: %s\n", QuoteYAML(*m.ContainerType))
		}
		if m.ContainerConstructor != nil {
			fmt.Fprintf(&b, "  container_constructor: %s\n", QuoteYAML(*m.ContainerConstructor))
		}
		if m.DefaultMustGetter != nil {
			fmt.Fprintf(&b, "  default_must_getter: %s\n", boolStr(*m.DefaultMustGetter))
		}
		if len(m.Imports) > 0 {
			b.WriteString("  imports:\n")
			for _, kv := range m.Imports {
				fmt.Fprintf(&b, "    %s: %s\n", QuoteYAML(kv.K), QuoteYAML(kv.V))
			}
		}
		if len(m.Functions) > 0 {
			b.WriteString("  functions:\n")
			for _, kv := range m.Functions {
				fmt.Fprintf(&b, "    %s: %s\n", QuoteYAML(kv.K), QuoteYAML(kv.V))
			}
		}
	}
	if len(c.Params) > 0 {
		b.WriteString("parameters:\n")
		for _, kv := range c.Params {
			fmt.Fprintf(&b, "  %s: %s\n", QuoteYAML(kv.K), kv.V.YAML())
		}
	}
	if len(c.Services) > 0 {
		b.WriteString("services:\n")
		for _, s := range c.Services {
			if !s.hasAttrs() {
				fmt.Fprintf(&b, "  %s: {}\n", QuoteYAML(s.Name))
				continue
			}
			fmt.Fprintf(&b, "  %s:\n", QuoteYAML(s.Name))
			s.yaml(&b, "    ")
		}
	}
	if len(c.Decorators) > 0 {
		b.WriteString("decorators:\n")
		for _, d := range c.Decorators {
			fmt.Fprintf(&b, "  - tag: %s\n    decorator: %s\n", QuoteYAML(d.Tag), QuoteYAML(d.Decorator))
			if d.Args != nil {
				fmt.Fprintf(&b, "    arguments: %s\n", valList(d.Args))
			}
		}
	}
	if b.Len() == 0 {
		return "{}\n"
	}
	return b.String()
}

// ---------------------------------------------------------------------------------------
// alternative spellings of the same document (the meaning of a configuration must not depend on YAML style)

func isPlainSafe(s string) bool {
	if s == "" || len(s) > 40 {
		return false
	}
	for i, c := range s {
		switch {
		case c >= 'a' && c <= 'z', c >= 'A' && c <= 'Z':
		case c >= '0' && c <= '9', c == '_', c == '/':
			if i == 0 {
				return false
			}
		case c == '.', c == '-':
			if i == 0 || i == len(s)-1 {
				return false
			}
		default:
			return false
		}
	}
	switch strings.ToLower(s) {
	case "null", "true", "false", "yes", "no", "on", "off", "y", "n", "nan", "inf":
		return false
	}
	// anything that could be read as a number or a date stays quoted
	if _, err := strconv.ParseFloat(s, 64); err == nil {
		return false
	}
	return !(s[0] >= '0' && s[0] <= '9')
}

// scalarStyled spells a string scalar: plain when that is safe, single-quoted when it has no quote or escape, else double-quoted.
func scalarStyled(s string, style int) string {
	if style == 2 {
		if isPlainSafe(s) {
			return s
		}
		ok := s != ""
		for _, c := range s {
			if c == '\'' || c < 0x20 || c == 0x7f || c > 0x7e {
				ok = false
			}
		}
		if ok {
			return "'" + s + "'"
		}
	}
	return QuoteYAML(s)
}

func valStyled(v Val, style int) string {
	if v.Kind == "str" {
		return scalarStyled(v.S, style)
	}
	return v.Text
}

// YAMLStyle renders the same configuration in another YAML style:
// 1 = one flow (JSON-like) document, 2 = block style with plain/single-quoted scalars, block sequences, comments and document markers,
// 3 = style 0 with CRLF line endings and a byte order mark.
func (c Config) YAMLStyle(style int) string {
	switch style {
	case 1:
		return c.flow()
	case 2:
		return c.block()
	case 3:
		return "\ufeff" + strings.ReplaceAll(c.YAML(), "\n", "\r\n")
	}
	return c.YAML()
}

func flowList(vs []Val) string {
	parts := make([]string, len(vs))
	for i, v := range vs {
		parts[i] = v.YAML()
	}
	return "[" + strings.Join(parts, ",") + "]"
}

func (c Config) flow() string {
	var top []string
	if c.Version != nil {
		top = append(top, `"version": `+c.Version.YAML())
	}
	if !c.Meta.Empty() {
		var m []string
		if c.Meta.Pkg != nil {
			m = append(m, `"pkg": `+QuoteYAML(*c.Meta.Pkg))
		}
		if c.Meta.ContainerType != nil {
			m = append(m, `"container_type": `+QuoteYAML(*c.Meta.ContainerType))
		}
		if c.Meta.ContainerConstructor != nil {
			m = append(m, `"container_constructor": `+QuoteYAML(*c.Meta.ContainerConstructor))
		}
		if c.Meta.DefaultMustGetter != nil {
			m = append(m, `"default_must_getter": `+boolStr(*c.Meta.DefaultMustGetter))
		}
		ks := func(name string, l []KS) {
			if len(l) == 0 {
				return
			}
			var p []string
			for _, kv := range l {
				p = append(p, QuoteYAML(kv.K)+": "+QuoteYAML(kv.V))
			}
			m = append(m, `"`+name+`": {`+strings.Join(p, ", ")+"}")
		}
		ks("imports", c.Meta.Imports)
		ks("functions", c.Meta.Functions)
		top = append(top, `"meta": {`+strings.Join(m, ", ")+"}")
	}
	if len(c.Params) > 0 {
		var p []string
		for _, kv := range c.Params {
			p = append(p, QuoteYAML(kv.K)+": "+kv.V.YAML())
		}
		top = append(top, `"parameters": {`+strings.Join(p, ", ")+"}")
	}
	if len(c.Services) > 0 {
		var ss []string
		for _, s := range c.Services {
			var a []string
			add := func(k, v string) { a = append(a, `"`+k+`": `+v) }
			if s.Todo != nil {
				add("todo", boolStr(*s.Todo))
			}
			if s.Getter != nil {
				add("getter", QuoteYAML(*s.Getter))
			}
			if s.MustGetter != nil {
				add("must_getter", boolStr(*s.MustGetter))
			}
			if s.Type != nil {
				add("type", QuoteYAML(*s.Type))
			}
			if s.Value != nil {
				add("value", QuoteYAML(*s.Value))
			}
			if s.Constructor != nil {
				add("constructor", QuoteYAML(*s.Constructor))
			}
			if s.Args != nil {
				add("arguments", flowList(s.Args))
			}
			if s.Calls != nil {
				var cs []string
				for _, cl := range s.Calls {
					switch {
					case cl.NoArgs:
						cs = append(cs, "["+QuoteYAML(cl.Method)+"]")
					case cl.Wither == nil:
						cs = append(cs, "["+QuoteYAML(cl.Method)+", "+flowList(cl.Args)+"]")
					default:
						cs = append(cs, "["+QuoteYAML(cl.Method)+", "+flowList(cl.Args)+", "+boolStr(*cl.Wither)+"]")
					}
				}
				add("calls", "["+strings.Join(cs, ", ")+"]")
			}
			if s.Fields != nil {
				var fs []string
				for _, f := range s.Fields {
					fs = append(fs, QuoteYAML(f.K)+": "+f.V.YAML())
				}
				add("fields", "{"+strings.Join(fs, ", ")+"}")
			}
			if s.Tags != nil {
				var ts []string
				for _, t := range s.Tags {
					if t.Prio == nil {
						ts = append(ts, QuoteYAML(t.Name))
					} else {
						ts = append(ts, fmt.Sprintf(`{"priority": %d, "name": %s}`, *t.Prio, QuoteYAML(t.Name)))
					}
				}
				add("tags", "["+strings.Join(ts, ", ")+"]")
			}
			if s.Scope != nil {
				add("scope", QuoteYAML(*s.Scope))
			}
			ss = append(ss, QuoteYAML(s.Name)+": {"+strings.Join(a, ", ")+"}")
		}
		top = append(top, `"services": {`+strings.Join(ss, ", ")+"}")
	}
	if len(c.Decorators) > 0 {
		var ds []string
		for _, d := range c.Decorators {
			x := `{"decorator": ` + QuoteYAML(d.Decorator) + `, "tag": ` + QuoteYAML(d.Tag)
			if d.Args != nil {
				x += `, "arguments": ` + flowList(d.Args)
			}
			ds = append(ds, x+"}")
		}
		top = append(top, `"decorators": [`+strings.Join(ds, ", ")+"]")
	}
	return "{" + strings.Join(top, ",\n ") + "}\n"
}

func blockList(b *strings.Builder, ind string, vs []Val, style int) {
	if len(vs) == 0 {
		b.WriteString(" []\n")
		return
	}
	b.WriteString("\n")
	for _, v := range vs {
		fmt.Fprintf(b, "%s- %s\n", ind, valStyled(v, style))
	}
}

func (c Config) block() string {
	var b strings.Builder
	b.WriteString("# generated by the verification workload: block style\n---\n")
	if c.Version != nil {
		fmt.Fprintf(&b, "version: %s   # trailing comment\n", c.Version.YAML())
	}
	if !c.Meta.Empty() {
		b.WriteString("meta:\n")
		if c.Meta.Pkg != nil {
			fmt.Fprintf(&b, "    pkg: %s\n", scalarStyled(*c.Meta.Pkg, 2))
		}
		if c.Meta.ContainerType != nil {
			fmt.Fprintf(&b, "    container_type: %s\n", scalarStyled(*c.Meta.ContainerType, 2))
		}
		if c.Meta.ContainerConstructor != nil {
			fmt.Fprintf(&b, "    container_constructor: %s\n", scalarStyled(*c.Meta.ContainerConstructor, 2))
		}
		if c.Meta.DefaultMustGetter != nil {
			fmt.Fprintf(&b, "    default_must_getter: %s\n", boolStr(*c.Meta.DefaultMustGetter))
		}
		if len(c.Meta.Imports) > 0 {
			b.WriteString("    imports:\n")
			for _, kv := range c.Meta.Imports {
				fmt.Fprintf(&b, "        %s: %s\n", scalarStyled(kv.K, 2), scalarStyled(kv.V, 2))
			}
		}
		if len(c.Meta.Functions) > 0 {
			b.WriteString("    functions:\n")
			for _, kv := range c.Meta.Functions {
				fmt.Fprintf(&b, "        %s: %s\n", scalarStyled(kv.K, 2), scalarStyled(kv.V, 2))
			}
		}
	}
	if len(c.Params) > 0 {
		b.WriteString("\nparameters:\n")
		for _, kv := range c.Params {
			fmt.Fprintf(&b, "  %s: %s\n", scalarStyled(kv.K, 2), valStyled(kv.V, 2))
		}
	}
	if len(c.Services) > 0 {
		b.WriteString("\nservices:\n")
		for _, s := range c.Services {
			if !s.hasAttrs() {
				fmt.Fprintf(&b, "  %s: {}\n", scalarStyled(s.Name, 2))
				continue
			}
			fmt.Fprintf(&b, "  %s:\n", scalarStyled(s.Name, 2))
			ind := "      "
			if s.Scope != nil {
				fmt.Fprintf(&b, "%sscope: %s\n", ind, scalarStyled(*s.Scope, 2))
			}
			if s.Tags != nil {
				fmt.Fprintf(&b, "%stags:", ind)
				if len(s.Tags) == 0 {
					b.WriteString(" []\n")
				} else {
					b.WriteString("\n")
					for _, t := range s.Tags {
						if t.Prio == nil {
							fmt.Fprintf(&b, "%s  - %s\n", ind, scalarStyled(t.Name, 2))
						} else {
							fmt.Fprintf(&b, "%s  - name: %s\n%s    priority: %d\n", ind, scalarStyled(t.Name, 2), ind, *t.Prio)
						}
					}
				}
			}
			if s.Fields != nil {
				fmt.Fprintf(&b, "%sfields:", ind)
				if len(s.Fields) == 0 {
					b.WriteString(" {}\n")
				} else {
					b.WriteString("\n")
					for _, f := range s.Fields {
						fmt.Fprintf(&b, "%s  %s: %s\n", ind, scalarStyled(f.K, 2), valStyled(f.V, 2))
					}
				}
			}
			if s.Calls != nil {
				fmt.Fprintf(&b, "%scalls:", ind)
				if len(s.Calls) == 0 {
					b.WriteString(" []\n")
				} else {
					b.WriteString("\n")
					for _, cl := range s.Calls {
						fmt.Fprintf(&b, "%s  -\n%s    - %s\n", ind, ind, scalarStyled(cl.Method, 2))
						if !cl.NoArgs {
							fmt.Fprintf(&b, "%s    -", ind)
							blockList(&b, ind+"      ", cl.Args, 2)
							if cl.Wither != nil {
								fmt.Fprintf(&b, "%s    - %s\n", ind, boolStr(*cl.Wither))
							}
						}
					}
				}
			}
			if s.Args != nil {
				fmt.Fprintf(&b, "%sarguments:", ind)
				blockList(&b, ind+"  ", s.Args, 2)
			}
			if s.Constructor != nil {
				fmt.Fprintf(&b, "%sconstructor: %s\n", ind, scalarStyled(*s.Constructor, 2))
			}
			if s.Value != nil {
				fmt.Fprintf(&b, "%svalue: %s\n", ind, scalarStyled(*s.Value, 2))
			}
			if s.Type != nil {
				fmt.Fprintf(&b, "%stype: %s\n", ind, scalarStyled(*s.Type, 2))
			}
			if s.MustGetter != nil {
				fmt.Fprintf(&b, "%smust_getter: %s\n", ind, boolStr(*s.MustGetter))
			}
			if s.Getter != nil {
				fmt.Fprintf(&b, "%sgetter: %s\n", ind, scalarStyled(*s.Getter, 2))
			}
			if s.Todo != nil {
				fmt.Fprintf(&b, "%stodo: %s\n", ind, boolStr(*s.Todo))
			}
		}
	}
	if len(c.Decorators) > 0 {
		b.WriteString("\ndecorators:\n")
		for _, d := range c.Decorators {
			fmt.Fprintf(&b, "  - decorator: %s\n    tag: %s\n", scalarStyled(d.Decorator, 2), scalarStyled(d.Tag, 2))
			if d.Args != nil {
				b.WriteString("    arguments:")
				blockList(&b, "      ", d.Args, 2)
			}
		}
	}
	b.WriteString("...\n")
	return b.String()
}
