package mon

import (
	"fmt"
	"math/rand"
	"path/filepath"
	"strings"

	"verif/cfg"
	"verif/cli"
	"verif/gen"
	"verif/probe"
	"verif/ref"
	"verif/work"
)

func init() { Register("C15", "exploration", checkC15) }

func c15Configs() []*cfg.Config {
	meta := func() cfg.Meta {
		return cfg.Meta{Pkg: cfg.P("gen"), Imports: []cfg.KS{{K: "pa", V: "fixt/pa"}}, Functions: []cfg.KS{{K: "fn", V: "pa.Fn"}, {K: "fnint", V: "pa.FnInt"}}}
	}
	S := cfg.Str
	return []*cfg.Config{
		{Meta: meta(), Params: []cfg.KV{{K: "p0", V: S("%todo()%")}, {K: "p1", V: S("x%p0%")}},
			Services: []cfg.Service{{Name: "s0", Constructor: cfg.P("pa.New"), Args: []cfg.Val{S("%p1%")}}, {Name: "s1", Constructor: cfg.P("pa.New"), Args: []cfg.Val{S("@s0")}, Todo: cfg.P(false)}}},
		{Meta: meta(), Params: []cfg.KV{{K: "p0", V: S(`%todo("later")%`)}, {K: "p1", V: S("%p0%")}},
			Services: []cfg.Service{{Name: "s0", Todo: cfg.P(true)}, {Name: "s1", Constructor: cfg.P("pa.New"), Args: []cfg.Val{S("@s0"), S("%p1%")}}}},
		{Meta: meta(), Params: []cfg.KV{{K: "p0", V: S("%fn(1)%")}, {K: "p1", V: S("%p0%-%fnint()%")}},
			Services: []cfg.Service{{Name: "s0", Constructor: cfg.P("pa.New"), Args: []cfg.Val{S("%p1%")}, Scope: cfg.P("shared")}, {Name: "s1", Constructor: cfg.P("pa.New"), Args: []cfg.Val{S("@s0")}, Scope: cfg.P("non_shared")}}},
		{Meta: meta(), Params: []cfg.KV{{K: "p0", V: cfg.Int(5)}, {K: "p1", V: S("%todo()%")}},
			Services: []cfg.Service{{Name: "s0", Constructor: cfg.P("pa.NewVal"), Args: []cfg.Val{S("%p0%"), S("%p1%")}}, {Name: "s1", Todo: cfg.P(true)}}},
		{Meta: meta(), Params: []cfg.KV{{K: "p0", V: S(`%todo("")%`)}, {K: "p1", V: cfg.Bool(true)}},
			Services: []cfg.Service{{Name: "s0", Constructor: cfg.P("pa.New"), Tags: []cfg.Tag{{Name: "t"}}}, {Name: "s1", Constructor: cfg.P("pa.New"), Args: []cfg.Val{S("!tagged t"), S("%p1%")}}},
			Decorators: []cfg.Decorator{{Tag: "t", Decorator: "pa.DecSame", Args: []cfg.Val{S("%p0%")}}}},
		{Meta: meta(), Params: []cfg.KV{{K: "p0", V: S(`%todo("not  yet.  Ask ops,\tthen retry ")%`)}, {K: "p1", V: S("%p0%:8080")}},
			Services: []cfg.Service{{Name: "s0", Constructor: cfg.P("pa.New"), Args: []cfg.Val{S("a%p1%b"), S("%p0%%p0%-%fnint()%")}}, {Name: "s1", Constructor: cfg.P("pa.New"), Args: []cfg.Val{S("@s0"), S("%p0%-%p1%")},
				Fields: []cfg.KV{{K: "F2", V: S("%%%p0%%%x")}}}}},
		// a todo service declared with a tag that only it carries, and a decorator on that tag: the real service registered at
		// run time under that tag is decorated like any other
		{Meta: meta(), Params: []cfg.KV{{K: "p0", V: S("v")}, {K: "p1", V: cfg.Int(1)}},
			Services: []cfg.Service{{Name: "s0", Todo: cfg.P(true), Tags: []cfg.Tag{{Name: "t"}}}, {Name: "s1", Constructor: cfg.P("pa.New"), Args: []cfg.Val{S("@s0"), S("!tagged t")}}},
			Decorators: []cfg.Decorator{{Tag: "t", Decorator: "pa.DecSame", Args: []cfg.Val{S("%p1%"), S("%p0%")}}, {Tag: "u", Decorator: "pa.DecSame"}}},
		// todo takes any number of arguments; the first one is the message
		{Meta: meta(), Params: []cfg.KV{{K: "p0", V: S(`%todo("set p0 first", "then p1", "docs: OverrideParam")%`)}, {K: "p1", V: S(`%p0% / %todo("", "not the message")%`)}},
			Services: []cfg.Service{{Name: "s0", Constructor: cfg.P("pa.New"), Args: []cfg.Val{S("%p0%")}}, {Name: "s1", Constructor: cfg.P("pa.New"), Args: []cfg.Val{S("@s0"), S("%p1%")}}}},
		// the message is text, not a format: percent signs (written as Go escapes, a raw one would end the token) come out as they are
		{Meta: meta(), Params: []cfg.KV{{K: "p0", V: S(`%todo("50\x25 done, 100\u0025d left")%`)}, {K: "p1", V: S(`%p0% %todo("\045s \x25v \x25!")%`)}},
			Services: []cfg.Service{{Name: "s0", Constructor: cfg.P("pa.New"), Args: []cfg.Val{S("%p0%")}}, {Name: "s1", Constructor: cfg.P("pa.New"), Args: []cfg.Val{S("@s0"), S("%p1%")}}}},
		// the message is a constant of the configuration's own package whose type is a named string type (round 13, S249)
		{Meta: meta(), Params: []cfg.KV{{K: "p0", V: S("%todo(TodoReason)%")}, {K: "p1", V: S("%p0%!")}},
			Services: []cfg.Service{{Name: "s0", Constructor: cfg.P("pa.New"), Args: []cfg.Val{S("%p0%")}}, {Name: "s1", Constructor: cfg.P("pa.New"), Args: []cfg.Val{S("@s0"), S("%p1%")}}}},
		{Meta: meta(), Params: []cfg.KV{{K: "p0", V: S("%todo()%")}, {K: "p1", V: cfg.Int(1)}},
			Services: []cfg.Service{{Name: "s0", Constructor: cfg.P("pa.New"), Args: []cfg.Val{S("%p0%")}, Scope: cfg.P("contextual")}, {Name: "s1", Constructor: cfg.P("pa.New"), Args: []cfg.Val{S("@s0"), S("%p1%")},
				Fields: []cfg.KV{{K: "F1", V: S("%p0%")}}}}},
	}
}

// c15Alphabet: the operations histories are built from (2 params x {get, override}, 2 services x {get, override}).
func c15Alphabet() []probe.Op {
	return []probe.Op{
		{Op: "param", Name: "p0"}, {Op: "param", Name: "p1"},
		{Op: "get", Name: "s0"}, {Op: "get", Name: "s1"},
		{Op: "overrideparam", Name: "p0", Deps: []probe.DepSpec{{Dep: "value", T: "string", V: "ov0"}}},
		{Op: "overrideparam", Name: "p1", Deps: []probe.DepSpec{{Dep: "value", T: "int", V: "77"}}},
		{Op: "overridesvc", Name: "s0", Ctor: "fixt/pb.New", Deps: []probe.DepSpec{{Dep: "value", T: "string", V: "ovs0"}, {Dep: "param", Name: "p0"}}, Tags: []probe.TagSpec{{Name: "t", Prio: 0}}},
		{Op: "overridesvc", Name: "s1", Ctor: "fixt/pa.NewVal", Deps: []probe.DepSpec{{Dep: "service", Name: "s0"}}},
		// the overriding definition may be contextual: dependants without a scope of their own become contextual with it,
		// which shows when they are fetched in two contexts
		{Op: "overridesvc", Name: "s0", Ctor: "fixt/pa.New", Scope: "contextual", Deps: []probe.DepSpec{{Dep: "value", T: "string", V: "ctx-ov"}}},
		{Op: "getctx", Name: "s1", Ctx: 1}, {Op: "getctx", Name: "s1", Ctx: 2},
	}
}

func checkC15(c *Ctx) error {
	maxLen := c.Pick(3, 5)
	c.Rule = fmt.Sprintf("(1) histories: every sequence of length <=%d over {GetParam p0/p1, Get s0/s1, GetInContext s1 in two contexts, OverrideParam p0/p1, OverrideService s0 (plain, tagged, contextual) / s1} on nine small configurations (the real service overriding a todo service carries a tag) (param->param->service->service chains with todo parameters/services at each position, tags, a decorator, explicit scopes), plus seeded longer histories; each history runs on a fresh generated container and is compared with the reference container; results that touch a cache entry filled before an override are recorded but not judged (the statement only speaks about dependants not yet constructed); function invocation counters are read right after construction (laziness) and at the end; (2) every subset of definitions marked todo is run through the real binary and must be accepted; (3) seeded configurations in which 1-3 services are switched off with `todo: true` while keeping a definition full of dangling, self- and neighbour references must be accepted. distinct = distinct (configuration, history); non-trivial = history contains >=1 override or touches a todo definition", maxLen)
	c.Assumptions = []string{"reference container engine/ref with caches", "OverrideParam/OverrideService definitions are built by the probe from fixture constructors"}
	lab, err := probe.NewLab(c.W)
	if err != nil {
		return err
	}
	alpha := c15Alphabet()
	confs := c15Configs()
	var units []*probe.Unit
	histories := 0
	// histories are chunked so that a unit's script stays a manageable size
	const perUnit = 400
	for ci, conf := range confs {
		var hs [][]probe.Op
		var rec func(prefix []probe.Op, depth int)
		rec = func(prefix []probe.Op, depth int) {
			if len(prefix) > 0 {
				hs = append(hs, append([]probe.Op(nil), prefix...))
			}
			if depth == maxLen {
				return
			}
			for _, o := range alpha {
				rec(append(prefix, o), depth+1)
			}
		}
		rec(nil, 0)
		// seeded longer histories
		r := rand.New(rand.NewSource(c.Seed*31 + int64(ci)))
		for k := 0; k < c.Pick(150, 3000); k++ {
			n := maxLen + 1 + r.Intn(6)
			var h []probe.Op
			for i := 0; i < n; i++ {
				h = append(h, alpha[r.Intn(len(alpha))])
			}
			hs = append(hs, h)
		}
		histories += len(hs)
		for start, part := 0, 0; start < len(hs); start, part = start+perUnit, part+1 {
			end := start + perUnit
			if end > len(hs) {
				end = len(hs)
			}
			var ops []probe.Op
			for _, h := range hs[start:end] {
				ops = append(ops, probe.Op{Op: "new"}, probe.Op{Op: "counts"})
				ops = append(ops, h...)
				ops = append(ops, probe.Op{Op: "counts"})
			}
			// the generated package is the same for all parts of one configuration, but each unit is its own package;
			// every third unit gets the configuration as three files with decoys (todo flags, definitions and values that a
			// later file overrides): placeholders declared in one file and realised in another must behave the same
			files := []probe.File{{Name: "gontainer.yaml", Content: conf.YAML()}}
			if part%3 == 1 {
				rs := rand.New(rand.NewSource(c.Seed*17 + int64(ci*1000+part)))
				parts := gen.SplitParts(rs, conf, 3)
				gen.AddDecoys(rs, parts)
				files = nil
				for k := range parts {
					files = append(files, probe.File{Name: fmt.Sprintf("%d0-part.yaml", k+1), Content: parts[k].YAML()})
				}
			}
			units = append(units, &probe.Unit{ID: fmt.Sprintf("c%02d%03d", ci, part), Cfg: conf, Files: files, Ops: ops})
		}
	}
	c.Set("histories", histories)
	c.Set("max_exhaustive_length", maxLen)
	if err := runUnits(c, lab, units, false); err != nil {
		return err
	}
	for _, u := range units {
		files := unitFiles(u)
		if !u.Accepted {
			c.Violate("todo-config-rejected:"+sigWords(rejectReason(u)), fmt.Sprintf("unit %s: %s", u.ID, rejectReason(u)), files)
			continue
		}
		if !u.Compiled {
			c.Violate("does-not-compile:"+errClass(u.CompileErr), fmt.Sprintf("unit %s: %s", u.ID, firstLines(u.CompileErr, 6)), files)
			continue
		}
		if len(u.Results) == 0 {
			c.Violate("probe:"+sigWords(u.ProbeErr), fmt.Sprintf("unit %s: %s", u.ID, u.ProbeErr), files)
			continue
		}
		exp := RunModel(u.Cfg, u.Ops, nil)
		mm, judged := CompareHistory(u, exp, true)
		c.Add("ops_judged", judged)
		c.Add("ops_total", len(u.Ops))
		tainted := 0
		for _, e := range exp {
			if e.Tainted {
				tainted++
			}
		}
		c.Add("ops_unconstrained_not_judged", tainted)
		// count histories (segments starting with "new")
		var seg []string
		flush := func() {
			if len(seg) > 0 {
				k := strings.Join(seg, ";")
				c.Eval(u.ID[:3]+":"+k, strings.Contains(k, "override") || true)
				seg = nil
			}
		}
		for _, op := range u.Ops {
			if op.Op == "new" {
				flush()
				continue
			}
			if op.Op != "counts" {
				seg = append(seg, fmt.Sprintf("%s %s %s %d", op.Op, op.Name, op.Scope, op.Ctx))
			}
		}
		flush()
		for _, m := range mm {
			// locate the history the mismatching op belongs to
			start := m.Op
			for start > 0 && u.Ops[start].Op != "new" {
				start--
			}
			var h []string
			for k := start; k < len(u.Ops) && (k == start || u.Ops[k].Op != "new"); k++ {
				h = append(h, u.Ops[k].Op+" "+u.Ops[k].Name)
			}
			files["history.txt"] = strings.Join(h, "\n")
			files["mismatch.txt"] = m.Text
			c.Violate(m.Kind+":"+u.Ops[m.Op].Op, fmt.Sprintf("unit %s: history [%s]: %s", u.ID, strings.Join(h, "; "), m.Text), files)
		}
	}
	if len(c.Samples) < 2 && len(units) > 0 {
		u := units[0]
		var h []string
		for k := 0; k < len(u.Ops) && k < 12; k++ {
			h = append(h, u.Ops[k].Op+" "+u.Ops[k].Name)
		}
		c.Sample(map[string]any{"config": u.Files[0].Content, "first_histories": h})
	}
	// ---- (2) every subset of definitions marked todo must be accepted
	base := confs[0]
	w := c.W
	Par(16, 16, func(mask int) {
		conf := base.Clone()
		if mask&1 != 0 {
			conf.Params[0].V = cfg.Str("%todo()%")
		} else {
			conf.Params[0].V = cfg.Int(1)
		}
		if mask&2 != 0 {
			conf.Params[1].V = cfg.Str(`%todo("msg")%`)
		}
		if mask&4 != 0 {
			conf.Services[0] = cfg.Service{Name: "s0", Todo: cfg.P(true)}
		}
		if mask&8 != 0 {
			conf.Services[1] = cfg.Service{Name: "s1", Todo: cfg.P(true)}
		}
		dir := w.TempDir("c15t")
		yaml := conf.YAML()
		_ = work.WriteFile(filepath.Join(dir, "in.yaml"), []byte(yaml))
		out := filepath.Join(dir, "out.go")
		run := cli.Do(w, "", nil, dir, out, "build", "-i", "in.yaml", "-o", out)
		c.Eval("todo-subset:"+yaml, mask != 0)
		if run.Res.Exit != 0 {
			c.Violate("todo-subset-rejected", fmt.Sprintf("todo subset %04b rejected:\n%s", mask, run.Res.Stdout), map[string]string{"input/in.yaml": yaml})
		}
	})
	// ---- (3) a todo service that still carries a definition: whatever that definition refers to (undeclared parameters and
	// services, itself, a cycle through a neighbour, a contextual service while it is declared shared) is ignored; seeded
	// configurations of the behaviour generator get 1-3 services switched off this way and must still be accepted
	nt := c.Pick(60, 1500)
	Par(nt, 16, func(i int) {
		r := rand.New(rand.NewSource(c.Seed*977 + int64(i)))
		o := gen.DefaultOpts()
		o.Scopes = i%2 == 0
		conf := gen.Behaviour(r, o)
		leftovers := [][]cfg.Val{
			{cfg.Str("%never.declared%"), cfg.Str("@nowhere")},
			{cfg.Str("x%nope1%-%nope2%"), cfg.Str("!tagged nobody-carries-this")},
			{cfg.Str("@SELF")},
			{cfg.Str("@NEIGHBOUR")},
			{cfg.Str("%unclosed"), cfg.Str("%unknownFn()%")},
		}
		k := 1 + r.Intn(3)
		for j := 0; j < k && len(conf.Services) > 0; j++ {
			si := r.Intn(len(conf.Services))
			sv := &conf.Services[si]
			// only services nobody needs at build time with their tags/scope: dependants keep referring to the name
			args := append([]cfg.Val{}, leftovers[r.Intn(len(leftovers))]...)
			for a := range args {
				if args[a].S == "@SELF" {
					args[a] = cfg.Str("@" + sv.Name)
				}
				if args[a].S == "@NEIGHBOUR" {
					args[a] = cfg.Str("@" + conf.Services[(si+1)%len(conf.Services)].Name)
				}
			}
			scope := sv.Scope
			var sameGetter *string
			for _, other := range conf.Services {
				if other.Name != sv.Name && other.Getter != nil && !other.IsTodo() {
					sameGetter = cfg.P(*other.Getter) // the getter of a service that really exists: ignored on a placeholder
				}
			}
			*sv = cfg.Service{Name: sv.Name, Todo: cfg.P(true), Getter: sameGetter, Constructor: cfg.P(`"fixt/pa".New`), Args: args, Scope: scope,
				Calls: []cfg.Call{{Method: "Set", Args: []cfg.Val{cfg.Str("%also.missing%")}}}, Fields: []cfg.KV{{K: "F1", V: cfg.Str("@missing.too")}}}
		}
		// switching a service off may remove the reason for a scope conflict, never add one; cycles and conflicts that remain
		// among the other services are repaired by the generator before, so the configuration has to be accepted - unless a
		// declared-shared service now reaches a contextual placeholder (the placeholder keeps its declared scope)
		if len(ref.ScopeErrors(conf, ref.BuildGraph(conf))) > 0 {
			c.Add("todo_full_definition_cases_skipped(scope conflict by construction)", 1)
			return
		}
		dir := w.TempDir("c15f")
		yaml := conf.YAML()
		_ = work.WriteFile(filepath.Join(dir, "in.yaml"), []byte(yaml))
		out := filepath.Join(dir, "out.go")
		run := cli.Do(w, "", nil, dir, out, "build", "-i", "in.yaml", "-o", out)
		c.Eval("todo-full:"+yaml, true)
		c.Add("todo_services_with_leftover_definitions", 1)
		if run.Res.Exit != 0 {
			c.Violate("todo-service-definition-checked:"+sigWords(rejectReason2(run)), fmt.Sprintf("a configuration whose todo services still carry definitions (with dangling references, self references) is rejected:\n%s", run.Res.Stdout), map[string]string{"input/in.yaml": yaml})
		}
	})
	return nil
}
