package ref

import (
	"fmt"
	"sort"
	"strconv"
	"strings"

	"verif/cfg"
)

// ---------------------------------------------------------------------------------------
// model values: Go pointer/value semantics of the fixture types are reproduced literally

type HistM struct{ E []EntryM }

type EntryM struct {
	Kind, Method, Pkg, Tag, Svc string
	Args                        []any
	Snap                        [3]string
}

func (h *HistM) clone() *HistM {
	n := &HistM{}
	if h != nil {
		n.E = append([]EntryM(nil), h.E...)
	}
	return n
}

// ObjM models a fixture Obj value; *ObjM models *Obj.
type ObjM struct {
	Serial, From int64
	Pkg, Ctor    string
	Args         []any
	F            [3]any
	H            *HistM
	TPkg         string // package path declaring the type ("" = current package)
	pid          int64  // lazily assigned identity of serial-less pointer objects
}

type WrapM struct {
	Serial             int64
	Pkg, Fn, Tag, Svc  string
	Inner              any
	Args               []any
}

type NilObjM struct{ TPkg string }  // typed nil *Obj
type OtherM struct{ T, V string }    // any other Go value, by type and %v
type ContainerM struct{}             // the container under test
type SliceM []any                    // []interface{}

// ErrM is an expected error: the message must contain all of Contains.
type ErrM struct {
	Contains []string
	Why      string
	Token    string // the raw %token% the error must name; other Contains are looked up outside of it
	Not      []string // substrings that must NOT occur outside the token (e.g. the default text when a message was given)
}

func errf(why string, contains ...string) *ErrM { return &ErrM{Contains: contains, Why: why} }

// EventM is an expected orphan/function event.
type EventM struct {
	Kind, Pkg, Sym string
	Args           []any
}

// ---------------------------------------------------------------------------------------

type SvcDef struct {
	Cfg      *cfg.Service // from the configuration
	Override *OverrideSvc // from OverrideService
}

type OverrideSvc struct {
	Ctor  string // "fixt/pa.New"
	Deps  []DepM
	Scope string
	Tags  map[string]int // tags of a service registered at run time
}

type DepM struct {
	Kind string // value | service | param | tag
	Val  any
	Name string
}

type cached struct {
	v     any
	epoch int
}

type Interp struct {
	C       *cfg.Config
	Im      Imports
	PkgName string
	Fixt    map[string]string // fixture package path -> package name

	next    int64
	epoch   int // number of Override* calls so far
	svc     map[string]*SvcDef
	params  map[string]*DepM // overridden params; nil entry = from config
	pcfg    map[string]cfg.Val
	shared  map[string]cached
	pcache  map[string]cached
	bags    map[int]map[string]cached
	globals map[string]*pkgGlobals
	values  map[string]any // !value arguments evaluated at construction time, by position key
	Env     map[string]string
	funcs   map[string]GoRef // registered parameter functions (incl. built-ins)

	Events  []EventM
	Counts  map[string]int
	Tainted bool   // the current op touched a cache entry filled before the latest override
	Unknown string // non-empty: the model does not predict this op (reason)
	runtimeDecs []cfg.Decorator // registered through AddDecorator after construction
	graph   *Graph
}

type pkgGlobals struct {
	Global, GlobalPtr, BoxInner, BoxPtr *ObjM
}

func NewInterp(c *cfg.Config, fixt map[string]string) *Interp {
	it := &Interp{C: c, Im: NewImports(c), Fixt: fixt, PkgName: "main"}
	if c.Meta.Pkg != nil {
		it.PkgName = *c.Meta.Pkg
	}
	return it
}

func (it *Interp) serial() int64 { it.next++; return it.next }

func (it *Interp) hit(sym string) { it.Counts[sym]++ }

func (it *Interp) mk(pkg, ctor string, args []any) ObjM {
	it.hit(pkgID(pkg) + "." + ctor)
	return ObjM{Serial: it.serial(), Pkg: pkgID(pkg), Ctor: ctor, Args: args, H: &HistM{}, TPkg: pkg}
}

func pkgID(pkg string) string {
	if pkg == "" {
		return "."
	}
	return pkg
}

func (it *Interp) known(pkg string) bool {
	if pkg == "" {
		return true
	}
	_, ok := it.Fixt[pkg]
	return ok
}

func (it *Interp) glob(pkg string) *pkgGlobals {
	if g, ok := it.globals[pkg]; ok {
		return g
	}
	// package-level objects exist since process start: their serials precede everything else
	mkp := func(ctor string) *ObjM { o := it.mk(pkg, ctor, nil); return &o }
	g := &pkgGlobals{Global: mkp("Global"), GlobalPtr: mkp("GlobalPtr"), BoxInner: mkp("Box.Inner"), BoxPtr: mkp("Box.Ptr")}
	it.globals[pkg] = g
	return g
}

// New models the generated constructor: definitions are registered, !value arguments are
// evaluated once, nothing else runs (parameters are lazy).
func (it *Interp) New() {
	it.next = 0
	it.epoch = 0
	it.svc = map[string]*SvcDef{}
	it.params = map[string]*DepM{}
	it.pcfg = map[string]cfg.Val{}
	it.shared = map[string]cached{}
	it.pcache = map[string]cached{}
	it.bags = map[int]map[string]cached{}
	it.globals = map[string]*pkgGlobals{}
	it.values = map[string]any{}
	it.Counts = map[string]int{}
	it.Events = nil
	it.runtimeDecs = nil
	it.funcs = map[string]GoRef{"env": {Sym: "getEnv"}, "envInt": {Sym: "getEnvInt"}, "todo": {Sym: "paramTodo"}}
	if it.Env == nil {
		it.Env = map[string]string{}
	}
	for _, kv := range it.C.Meta.Functions {
		it.funcs[kv.K] = it.Im.ParseFunc(kv.V)
	}
	for _, p := range it.C.Params {
		it.pcfg[p.K] = p.V
	}
	for i := range it.C.Services {
		s := &it.C.Services[i]
		it.svc[s.Name] = &SvcDef{Cfg: s}
	}
	it.graph = BuildGraph(it.C)
	// counters are reset after package init in the probe, so globals' creation is not counted
	saved := it.Counts
	it.Counts = map[string]int{}
	_ = saved
}

// value evaluates a `!value`/`value:` expression. fresh=true for `value:` of a service
// (re-evaluated on every build), false for arguments (evaluated once, cached by key).
func (it *Interp) value(expr string) any {
	r := it.Im.ParseValue(expr)
	if !it.known(r.Pkg) {
		it.Unknown = "value in unknown package " + r.Pkg
		return nil
	}
	saved := it.Counts
	it.Counts = map[string]int{} // touching globals must not count constructions
	g := it.glob(r.Pkg)
	it.Counts = saved
	if r.Deref {
		// `*pkg.Ptr`: the value the pointer refers to
		switch r.Sym {
		case "GlobalPtr":
			return *g.GlobalPtr
		case "Box.Ptr":
			return *g.BoxPtr
		}
		it.Unknown = "*" + r.Sym
		return nil
	}
	switch r.Sym {
	case "Global":
		if r.Ptr {
			return g.Global
		}
		return *g.Global
	case "GlobalPtr":
		if r.Ptr {
			it.Unknown = "&GlobalPtr"
			return nil
		}
		return g.GlobalPtr
	case "Box.Inner":
		if r.Ptr {
			return g.BoxInner
		}
		return *g.BoxInner
	case "Box.Ptr":
		if r.Ptr {
			it.Unknown = "&Box.Ptr"
			return nil
		}
		return g.BoxPtr
	case "GlobalVal":
		if r.Ptr {
			it.Unknown = "&GlobalVal"
			return nil
		}
		return OtherM{T: it.typeName(r.Pkg, "Val"), V: "{7 " + pkgID(r.Pkg) + "}"}
	case "Obj{}":
		if r.Ptr {
			return &ObjM{TPkg: r.Pkg}
		}
		return ObjM{TPkg: r.Pkg}
	case "Val{}":
		if r.Ptr {
			it.Unknown = "&Val{}"
			return nil
		}
		return OtherM{T: it.typeName(r.Pkg, "Val"), V: "{0 }"}
	case "PkgID":
		if r.Ptr {
			it.Unknown = "&PkgID"
			return nil
		}
		return pkgID(r.Pkg)
	}
	it.Unknown = "value symbol " + r.Sym
	return nil
}

func (it *Interp) pkgShort(pkg string) string {
	if pkg == "" {
		return it.PkgName
	}
	if n, ok := it.Fixt[pkg]; ok {
		return n
	}
	return pkg
}

func (it *Interp) typeName(pkg, t string) string { return it.pkgShort(pkg) + "." + t }

// argValue evaluates a !value argument once per position (the generated constructor
// evaluates it when the container is built).
func (it *Interp) argValue(key, expr string) any {
	if v, ok := it.values[key]; ok {
		return v
	}
	v := it.value(expr)
	it.values[key] = v
	return v
}

// PreEvaluate walks all !value arguments in generated-constructor order so that serial-less
// identities and value copies are taken at construction time.
func (it *Interp) PreEvaluate() {
	names := make([]string, 0, len(it.C.Services))
	for _, s := range it.C.Services {
		names = append(names, s.Name)
	}
	sort.Strings(names)
	for _, n := range names {
		s := it.C.Service(n)
		if s.IsTodo() {
			continue
		}
		for i, a := range s.Args {
			it.preArg(fmt.Sprintf("s:%s:arg:%d", n, i), a)
		}
		fs := append([]cfg.KV(nil), s.Fields...)
		sort.SliceStable(fs, func(i, j int) bool { return fs[i].K < fs[j].K })
		for _, f := range fs {
			it.preArg(fmt.Sprintf("s:%s:field:%s", n, f.K), f.V)
		}
		for ci, cl := range s.Calls {
			for i, a := range cl.Args {
				it.preArg(fmt.Sprintf("s:%s:call:%d:%d", n, ci, i), a)
			}
		}
	}
	for di, d := range it.C.Decorators {
		for i, a := range d.Args {
			it.preArg(fmt.Sprintf("d:%d:%d", di, i), a)
		}
	}
}

func (it *Interp) preArg(key string, v cfg.Val) {
	if a := Classify(v); a.Kind == ArgValue {
		it.argValue(key, a.Expr)
	}
}

// ---------------------------------------------------------------------------------------
// parameters

func (it *Interp) GetParam(name string) (any, *ErrM) {
	if c, ok := it.pcache[name]; ok {
		if c.epoch < it.epoch {
			it.Tainted = true
		}
		return c.v, nil
	}
	var v any
	var e *ErrM
	if d, ok := it.params[name]; ok && d != nil {
		v, e = it.resolveDep(*d, nil)
	} else if pv, ok := it.pcfg[name]; ok {
		v, e = it.evalParam(pv)
	} else {
		return nil, errf("unknown parameter", name, "does not exist")
	}
	if e != nil {
		e.Contains = append(e.Contains, name)
		return nil, e
	}
	it.pcache[name] = cached{v, it.epoch}
	return v, nil
}

func (it *Interp) evalParam(v cfg.Val) (any, *ErrM) {
	if v.Kind != "str" {
		return v.Go(), nil
	}
	return it.evalPattern(v.S)
}

func (it *Interp) evalPattern(s string) (any, *ErrM) {
	chunks, bad := ParsePattern(s, func(fn string) bool { _, ok := it.funcs[fn]; return ok })
	if bad != "" {
		it.Unknown = "rejected pattern reached evaluation: " + bad
		return nil, errf("rejected pattern")
	}
	if len(chunks) == 1 {
		return it.evalChunk(chunks[0])
	}
	var sb strings.Builder
	for _, ch := range chunks {
		v, e := it.evalChunk(ch)
		if e != nil {
			return nil, e
		}
		if f, isF := v.(float64); isF && (f != f || f > 1.7e308 || f < -1.7e308) {
			it.Unknown = "string cast of a non-finite float"
		}
		str, ok := CastToString(v)
		if !ok {
			return nil, errf("chunk type cannot be cast to string")
		}
		sb.WriteString(str)
	}
	return sb.String(), nil
}

func (it *Interp) evalChunk(ch Chunk) (any, *ErrM) {
	switch ch.Kind {
	case "lit":
		return ch.Text, nil
	case "pct":
		return "%", nil
	case "ref":
		return it.GetParam(ch.Text)
	case "call":
		args, ok := ParseArgs(ch.Args)
		if !ok {
			it.Unknown = "function arguments outside the literal subset: " + ch.Args
			return nil, errf("unknown args")
		}
		v, e := it.callFn(ch.Text, args)
		if e != nil && e.Token == "" {
			e.Token = ch.Raw // a failing function yields an error naming the token
		}
		return v, e
	}
	return nil, errf("bad chunk")
}

func (it *Interp) callFn(name string, args []any) (any, *ErrM) {
	r := it.funcs[name]
	// built-ins (unless re-registered by meta.functions under the same name)
	if r.Pkg == "" {
		switch r.Sym {
		case "getEnv", "getEnvInt":
			if len(args) == 0 {
				return nil, errf("env without key")
			}
			key, isStr := args[0].(string)
			if !isStr {
				it.Unknown = "env key is not a string"
				return nil, errf("x")
			}
			val, set := it.Env[key]
			if !set {
				if len(args) > 1 {
					if r.Sym == "getEnv" {
						if _, ok := args[1].(string); !ok {
							it.Unknown = "env default is not a string"
						}
					} else if _, ok := args[1].(int); !ok {
						it.Unknown = "envInt default is not an int"
					}
					return args[1], nil
				}
				return nil, errf("env var missing", "does not exist")
			}
			if r.Sym == "getEnv" {
				return val, nil
			}
			n, err := strconv.Atoi(val)
			if err != nil {
				return nil, errf("env var not an int")
			}
			return n, nil
		case "paramTodo":
			if len(args) > 0 {
				if s, ok := args[0].(string); ok {
					e := errf("todo with message", s)
					if !strings.Contains(s, "parameter todo") {
						e.Not = []string{"parameter todo"} // the given message replaces the default text, even an empty one
					}
					// further arguments are not part of the message
					for _, more := range args[1:] {
						if ms, ok := more.(string); ok && len(ms) > 3 && !strings.Contains(s, ms) {
							e.Not = append(e.Not, ms)
						}
					}
					return nil, e
				}
				it.Unknown = "todo message is not a string"
				return nil, errf("x")
			}
			return nil, errf("todo", "parameter todo")
		}
	}
	if !it.known(r.Pkg) {
		it.Unknown = "function in unknown package " + r.Pkg
		return nil, errf("x")
	}
	id := pkgID(r.Pkg)
	switch r.Sym {
	case "Fn":
		it.hit(id + ".Fn")
		it.Events = append(it.Events, EventM{Kind: "fn", Pkg: id, Sym: "Fn", Args: args})
		parts := make([]string, len(args))
		for i, a := range args {
			parts[i] = Shallow(a)
		}
		return "Fn<" + id + ">(" + strings.Join(parts, ",") + ")", nil
	case "FnEcho":
		it.hit(id + ".FnEcho")
		if len(args) == 0 {
			return nil, nil
		}
		return args[0], nil
	case "FnInt":
		it.hit(id + ".FnInt")
		return 1000 + len(args), nil
	case "FnTyped":
		// typed parameters (float64, int64, string): numeric literals are converted, anything else is outside the model
		if len(args) != 3 {
			it.Unknown = "FnTyped arity"
			return nil, errf("x")
		}
		var f float64
		switch x := args[0].(type) {
		case int:
			f = float64(x)
		case float64:
			f = x
		default:
			it.Unknown = "FnTyped argument types"
			return nil, errf("x")
		}
		n, okN := args[1].(int)
		str, okS := args[2].(string)
		if !okN || !okS {
			it.Unknown = "FnTyped argument types"
			return nil, errf("x")
		}
		it.hit(id + ".FnTyped")
		return "FnTyped<" + id + ">(" + Shallow(f) + "," + Shallow(int64(n)) + "," + Shallow(str) + ")", nil
	case "FnFail":
		it.hit(id + ".FnFail")
		return nil, errf("failing function", "FnFail<"+id+">")
	}
	it.Unknown = "function symbol " + r.Sym
	return nil, errf("x")
}

// Shallow mirrors rec.Shallow.
func Shallow(v any) string {
	switch x := v.(type) {
	case nil:
		return "nil"
	case bool:
		return "bool:" + strconv.FormatBool(x)
	case int:
		return "int:" + strconv.Itoa(x)
	case int64:
		return "int64:" + strconv.FormatInt(x, 10)
	case uint64:
		return "uint64:" + strconv.FormatUint(x, 10)
	case float64:
		return "float64:" + FmtFloat(x)
	case string:
		return "string:" + x
	case *WrapM:
		return "wrapped"
	case *ObjM:
		return "objptr"
	case ObjM:
		return "objval"
	case NilObjM:
		return "nilobj"
	case ContainerM:
		return "container"
	case SliceM:
		return "slice"
	case OtherM:
		return "other:" + x.T
	}
	return "?"
}

func FmtFloat(f float64) string {
	switch {
	case f != f:
		return "NaN"
	case f > 1.7976931348623157e308:
		return "+Inf"
	case f < -1.7976931348623157e308:
		return "-Inf"
	case f == 0:
		return "0"
	}
	return strconv.FormatFloat(f, 'g', -1, 64)
}

// ---------------------------------------------------------------------------------------
// services

type bag map[string]cached

func (it *Interp) Get(name string) (any, *ErrM)             { return it.get(name, bag{}) }
func (it *Interp) GetInContext(k int, name string) (any, *ErrM) { return it.get(name, it.ctxBag(k)) }

func (it *Interp) ctxBag(k int) bag {
	if b, ok := it.bags[k]; ok {
		return b
	}
	b := map[string]cached{}
	it.bags[k] = b
	return b
}

func (it *Interp) GetTaggedBy(tag string) (any, *ErrM) { return it.tagged(tag, bag{}) }
func (it *Interp) GetTaggedByInContext(k int, tag string) (any, *ErrM) {
	return it.tagged(tag, it.ctxBag(k))
}

type tagEntry struct {
	name string
	prio int
}

func (it *Interp) tagsOf(d *SvcDef) map[string]int {
	m := map[string]int{}
	if d.Override != nil {
		for t, p := range d.Override.Tags {
			m[t] = p
		}
		return m
	}
	if d.Cfg != nil && !d.Cfg.IsTodo() {
		for _, t := range d.Cfg.Tags {
			m[t.Name] = t.Priority() // a repeated tag would have been rejected
		}
	}
	return m
}

func (it *Interp) tagged(tag string, b bag) (any, *ErrM) {
	var es []tagEntry
	for n, d := range it.svc {
		if p, ok := it.tagsOf(d)[tag]; ok {
			es = append(es, tagEntry{n, p})
		}
	}
	sort.Slice(es, func(i, j int) bool {
		if es[i].prio != es[j].prio {
			return es[i].prio > es[j].prio
		}
		return es[i].name < es[j].name
	})
	out := make(SliceM, 0, len(es))
	for _, e := range es {
		v, err := it.get(e.name, b)
		if err != nil {
			return nil, err
		}
		out = append(out, v)
	}
	return out, nil
}

func (it *Interp) scopeOf(name string, d *SvcDef) string {
	if d.Override != nil {
		if d.Override.Scope != "" {
			return d.Override.Scope
		}
		return it.defaultScope(name)
	}
	if s := declaredScope(d.Cfg); s != "" {
		return s
	}
	return it.defaultScope(name)
}

// defaultScope: contextual iff a declared-contextual service is reachable over the current definitions.
func (it *Interp) defaultScope(name string) string {
	seen := map[string]bool{}
	var walk func(n string) bool
	walk = func(n string) bool {
		for _, t := range it.directDeps(n) {
			d, ok := it.svc[t]
			if !ok || seen[t] {
				continue
			}
			seen[t] = true
			if it.declScope(d) == "contextual" {
				return true
			}
			if walk(t) {
				return true
			}
		}
		return false
	}
	if walk(name) {
		return "contextual"
	}
	return "shared"
}

func (it *Interp) declScope(d *SvcDef) string {
	if d.Override != nil {
		return d.Override.Scope
	}
	return declaredScope(d.Cfg)
}

func (it *Interp) directDeps(name string) []string {
	d := it.svc[name]
	if d == nil {
		return nil
	}
	var out []string
	addTag := func(t string) {
		for n, dd := range it.svc {
			if _, ok := it.tagsOf(dd)[t]; ok {
				out = append(out, n)
			}
		}
	}
	addVal := func(v cfg.Val) {
		a := Classify(v)
		switch a.Kind {
		case ArgService:
			out = append(out, a.Expr)
		case ArgTagged:
			addTag(a.Expr)
		}
	}
	if d.Override != nil {
		for _, dep := range d.Override.Deps {
			switch dep.Kind {
			case "service":
				out = append(out, dep.Name)
			case "tag":
				addTag(dep.Name)
			}
		}
		for _, dec := range it.decorators() {
			if _, ok := it.tagsOf(d)[dec.Tag]; ok {
				for _, a := range dec.Args {
					addVal(a)
				}
			}
		}
		return out
	}
	s := d.Cfg
	if s.IsTodo() {
		return nil
	}
	for _, a := range s.Args {
		addVal(a)
	}
	for _, c := range s.Calls {
		for _, a := range c.Args {
			addVal(a)
		}
	}
	for _, f := range s.Fields {
		addVal(f.V)
	}
	for _, dec := range it.decorators() {
		if _, ok := it.tagsOf(d)[dec.Tag]; ok {
			for _, a := range dec.Args {
				addVal(a)
			}
		}
	}
	return out
}

func (it *Interp) get(name string, b bag) (any, *ErrM) {
	d, ok := it.svc[name]
	if !ok {
		return nil, errf("unknown service", name, "does not exist")
	}
	scope := it.scopeOf(name, d)
	var cache map[string]cached
	switch scope {
	case "shared":
		cache = it.shared
	case "contextual":
		cache = b
	}
	if cache != nil {
		if c, ok := cache[name]; ok {
			if c.epoch < it.epoch {
				it.Tainted = true
			}
			return c.v, nil
		}
	}
	v, e := it.build(name, d, b)
	if e != nil {
		e.Contains = append(e.Contains, name)
		return nil, e
	}
	if cache != nil {
		cache[name] = cached{v, it.epoch}
	}
	return v, nil
}

func (it *Interp) resolveDep(d DepM, b bag) (any, *ErrM) {
	switch d.Kind {
	case "value":
		return d.Val, nil
	case "service":
		return it.get(d.Name, b)
	case "param":
		return it.GetParam(d.Name)
	case "tag":
		return it.tagged(d.Name, b)
	}
	return nil, errf("bad dep")
}

func (it *Interp) resolveArg(key string, v cfg.Val, b bag) (any, *ErrM) {
	a := Classify(v)
	switch a.Kind {
	case ArgLiteral:
		return a.Lit, nil
	case ArgValue:
		return it.argValue(key, a.Expr), nil
	case ArgService:
		return it.get(a.Expr, b)
	case ArgTagged:
		return it.tagged(a.Expr, b)
	case ArgContainer:
		return ContainerM{}, nil
	}
	return it.evalPattern(a.Expr)
}

// resolveArgs resolves every argument (no short circuit, as the runtime does) and returns the first error.
func (it *Interp) resolveArgs(prefix string, vs []cfg.Val, b bag) ([]any, *ErrM) {
	out := make([]any, len(vs))
	var first *ErrM
	var others []*ErrM
	for i, v := range vs {
		x, e := it.resolveArg(fmt.Sprintf("%s:%d", prefix, i), v, b)
		if e != nil {
			if first == nil {
				first = e
			} else {
				others = append(others, e)
			}
		}
		out[i] = x
	}
	if first != nil && len(first.Not) > 0 && len(others) > 0 {
		// the runtime reports the errors of all arguments together: a text that must not occur in the first one
		// may legitimately be part of another one
		cp := *first
		cp.Not = nil
		for _, n := range first.Not {
			keep := true
			for _, o := range others {
				for _, c := range o.Contains {
					if strings.Contains(c, n) {
						keep = false
					}
				}
				if len(o.Contains) == 0 {
					keep = false // text of that error is not modelled
				}
			}
			if keep {
				cp.Not = append(cp.Not, n)
			}
		}
		first = &cp
	}
	return out, first
}

func (it *Interp) construct(pkg, sym string, args []any) (any, *ErrM) {
	if !it.known(pkg) {
		it.Unknown = "constructor in unknown package " + pkg
		return nil, errf("x")
	}
	switch sym {
	case "New":
		o := it.mk(pkg, "New", args)
		return &o, nil
	case "NewIface":
		o := it.mk(pkg, "NewIface", args)
		return &o, nil
	case "NewVal":
		return it.mk(pkg, "NewVal", args), nil
	case "NewTouch":
		o := it.mk(pkg, "NewTouch", args)
		return &o, nil
	case "NewErr":
		if len(args) > 0 {
			if s, ok := args[0].(string); ok && s == "fail" {
				it.hit(pkgID(pkg) + ".NewErr!")
				return nil, errf("failing constructor", "NewErr failed in "+pkgID(pkg))
			}
		}
		o := it.mk(pkg, "NewErr", args)
		return &o, nil
	}
	it.Unknown = "constructor symbol " + sym
	return nil, errf("x")
}

func (it *Interp) build(name string, d *SvcDef, b bag) (any, *ErrM) {
	if d.Override != nil {
		args := make([]any, len(d.Override.Deps))
		var first *ErrM
		for i, dep := range d.Override.Deps {
			v, e := it.resolveDep(dep, b)
			if e != nil && first == nil {
				first = e
			}
			args[i] = v
		}
		if first != nil {
			return nil, first
		}
		i := strings.LastIndex(d.Override.Ctor, ".")
		cur, e := it.construct(d.Override.Ctor[:i], d.Override.Ctor[i+1:], args)
		if e != nil {
			return nil, e
		}
		// decorators apply to whatever carries their tag, however it was registered
		return it.applyDecorators(name, d, cur, b)
	}
	s := d.Cfg
	if s.IsTodo() {
		return nil, errf("todo service", "service todo")
	}
	var cur any
	switch {
	case s.Constructor != nil:
		args, e := it.resolveArgs("s:"+name+":arg", s.Args, b)
		if e != nil {
			return nil, e
		}
		r := it.Im.ParseFunc(*s.Constructor)
		v, e := it.construct(r.Pkg, r.Sym, args)
		if e != nil {
			return nil, e
		}
		cur = v
	case s.Value != nil:
		cur = it.value(*s.Value)
	case s.Type != nil:
		t := it.Im.ParseType(*s.Type)
		switch {
		case t.Sym == "Obj" && t.Ptr:
			cur = NilObjM{TPkg: t.Pkg}
		case t.Sym == "Obj":
			cur = ObjM{TPkg: t.Pkg}
		case t.Sym == "Iface" && !t.Ptr:
			cur = nil
		case t.Sym == "Val" && !t.Ptr:
			cur = OtherM{T: it.typeName(t.Pkg, "Val"), V: "{0 }"}
		default:
			it.Unknown = "type-only creation of " + *s.Type
		}
	}
	// fields (sorted by name), then calls in order, then decorators
	fs := append([]cfg.KV(nil), s.Fields...)
	sort.SliceStable(fs, func(i, j int) bool { return fs[i].K < fs[j].K })
	var ferr *ErrM
	for _, f := range fs {
		v, e := it.resolveArg(fmt.Sprintf("s:%s:field:%s", name, f.K), f.V, b)
		if e != nil {
			if ferr == nil {
				ferr = e
			}
			continue
		}
		nv, ok := setField(cur, f.K, v)
		if !ok {
			it.Unknown = "field " + f.K + " on " + Shallow(cur)
			continue
		}
		cur = nv
	}
	if ferr != nil {
		return nil, ferr
	}
	var cerr *ErrM
	for ci, cl := range s.Calls {
		args, e := it.resolveArgs(fmt.Sprintf("s:%s:call:%d", name, ci), cl.Args, b)
		if e != nil {
			if cerr == nil {
				cerr = e
			}
			continue
		}
		wither := cl.Wither != nil && *cl.Wither
		nv, ok := it.callMethod(cur, cl.Method, args, wither)
		if !ok {
			it.Unknown = "method " + cl.Method + " on " + Shallow(cur)
			continue
		}
		cur = nv
	}
	if cerr != nil {
		return nil, cerr
	}
	return it.applyDecorators(name, d, cur, b)
}

// AddDecorator registers a decorator at run time (after the declared ones).
func (it *Interp) AddDecorator(dec cfg.Decorator) {
	it.epoch++
	it.runtimeDecs = append(it.runtimeDecs, dec)
}

func (it *Interp) decorators() []cfg.Decorator {
	if len(it.runtimeDecs) == 0 {
		return it.C.Decorators
	}
	return append(append([]cfg.Decorator{}, it.C.Decorators...), it.runtimeDecs...)
}

func (it *Interp) applyDecorators(name string, d *SvcDef, cur any, b bag) (any, *ErrM) {
	tags := it.tagsOf(d)
	for di, dec := range it.decorators() {
		if _, ok := tags[dec.Tag]; !ok {
			continue
		}
		args, e := it.resolveArgs(fmt.Sprintf("d:%d", di), dec.Args, b)
		if e != nil {
			return nil, e
		}
		r := it.Im.ParseFunc(dec.Decorator)
		nv, e := it.decorate(r, dec.Tag, name, cur, args)
		if e != nil {
			return nil, e
		}
		cur = nv
	}
	return cur, nil
}

var fieldIdx = map[string]int{"F1": 0, "F2": 1, "f3": 2}

func setField(cur any, name string, v any) (any, bool) {
	i, ok := fieldIdx[name]
	if !ok {
		return cur, false
	}
	switch o := cur.(type) {
	case *ObjM:
		o.F[i] = v
		return o, true
	case ObjM:
		o.F[i] = v
		return o, true
	}
	return cur, false
}

func snap(o *ObjM) [3]string { return [3]string{Shallow(o.F[0]), Shallow(o.F[1]), Shallow(o.F[2])} }

// callMethod applies a fixture method with Go receiver semantics. For a value held in an
// interface the runtime calls on an addressable copy and stores the copy back.
func (it *Interp) callMethod(cur any, method string, args []any, wither bool) (any, bool) {
	var p *ObjM
	isVal := false
	switch o := cur.(type) {
	case *ObjM:
		p = o
	case ObjM:
		cp := o
		p = &cp
		isVal = true
	default:
		return cur, false
	}
	id := pkgID(p.TPkg)
	back := func() any {
		if isVal {
			return *p
		}
		return p
	}
	switch method {
	case "Set":
		if wither {
			return cur, false
		}
		it.hit(id + ".Set")
		if p.H == nil {
			p.H = &HistM{}
		}
		p.H.E = append(p.H.E, EntryM{Kind: "call", Method: "Set", Pkg: id, Args: args, Snap: snap(p)})
		return back(), true
	case "Touch":
		if wither {
			return cur, false
		}
		it.hit(id + ".Touch")
		if p.H == nil {
			it.Events = append(it.Events, EventM{Kind: "orphan", Pkg: id, Sym: "Touch", Args: args})
			return cur, true
		}
		p.H.E = append(p.H.E, EntryM{Kind: "call", Method: "Touch", Pkg: id, Args: args, Snap: snap(p)})
		return cur, true
	case "With", "WithP":
		it.hit(id + "." + method)
		n := *p
		n.Serial = it.serial()
		n.From = p.Serial
		n.pid = 0
		n.H = p.H.clone()
		n.H.E = append(n.H.E, EntryM{Kind: "wither", Method: method, Pkg: id, Args: args, Snap: snap(p)})
		if !wither {
			return cur, true // result discarded by a plain call
		}
		if method == "With" {
			return n, true
		}
		return &n, true
	}
	return cur, false
}

func (it *Interp) decorate(r GoRef, tag, svc string, cur any, args []any) (any, *ErrM) {
	if !it.known(r.Pkg) {
		it.Unknown = "decorator in unknown package " + r.Pkg
		return nil, errf("x")
	}
	id := pkgID(r.Pkg)
	switch r.Sym {
	case "Dec", "DecErr":
		if r.Sym == "DecErr" && len(args) > 0 {
			if s, ok := args[0].(string); ok && s == "fail" {
				return nil, errf("failing decorator", "DecErr failed in "+id)
			}
		}
		it.hit(id + "." + r.Sym)
		return &WrapM{Serial: it.serial(), Pkg: id, Fn: r.Sym, Tag: tag, Svc: svc, Inner: cur, Args: args}, nil
	case "DecSame":
		it.hit(id + ".DecSame")
		e := EntryM{Kind: "dec", Method: "DecSame", Pkg: id, Tag: tag, Svc: svc, Args: args}
		switch o := cur.(type) {
		case *ObjM:
			if o.H != nil {
				o.H.E = append(o.H.E, e)
				return cur, nil
			}
		case ObjM:
			if o.H != nil {
				o.H.E = append(o.H.E, e)
				return cur, nil
			}
		}
		it.Events = append(it.Events, EventM{Kind: "orphan", Pkg: id, Sym: "DecSame:" + tag + ":" + svc, Args: args})
		return cur, nil
	}
	it.Unknown = "decorator symbol " + r.Sym
	return nil, errf("x")
}

// ---------------------------------------------------------------------------------------
// overrides

func (it *Interp) OverrideParam(name string, d DepM) {
	it.epoch++
	dd := d
	it.params[name] = &dd
	delete(it.pcache, name)
}

func (it *Interp) OverrideService(name string, o OverrideSvc) {
	it.epoch++
	oo := o
	it.svc[name] = &SvcDef{Override: &oo}
	delete(it.shared, name)
}

// StartOp clears per-operation observations.
func (it *Interp) StartOp() {
	it.Events = nil
	it.Tainted = false
	it.Unknown = ""
}

func (it *Interp) KnownPkg(pkg string) bool       { return it.known(pkg) }
func (it *Interp) TypeName(pkg, t string) string { return it.typeName(pkg, t) }

// Assignable reports whether the model value's dynamic type is exactly what the declared getter type accepts.
func (it *Interp) Assignable(v any, declared string) bool {
	t := it.Im.ParseType(declared)
	if !it.known(t.Pkg) {
		return false
	}
	switch t.Sym {
	case "Obj":
		switch o := v.(type) {
		case *ObjM:
			return t.Ptr && o.TPkg == t.Pkg
		case NilObjM:
			return t.Ptr && o.TPkg == t.Pkg
		case ObjM:
			return !t.Ptr && o.TPkg == t.Pkg
		}
	case "Iface":
		if t.Ptr {
			return false
		}
		switch v.(type) {
		case *ObjM, *WrapM, nil:
			return true
		}
	case "Val":
		if o, ok := v.(OtherM); ok && !t.Ptr {
			return o.T == it.typeName(t.Pkg, "Val")
		}
	}
	return false
}

// SurelyInconvertible: the value can certainly not be converted to the declared getter type (so the getter must
// report an error). Anything not listed is left unjudged.
func (it *Interp) SurelyInconvertible(v any, declared string) bool {
	t := it.Im.ParseType(declared)
	if !it.known(t.Pkg) {
		return false
	}
	switch t.Sym {
	case "Obj":
		switch o := v.(type) {
		case *ObjM:
			return !t.Ptr || o.TPkg != t.Pkg
		case ObjM:
			return t.Ptr || o.TPkg != t.Pkg
		case *WrapM:
			return true
		case NilObjM:
			return !t.Ptr
		case nil:
			return !t.Ptr
		}
	case "Iface":
		switch v.(type) {
		case ObjM, OtherM:
			return !t.Ptr
		}
	}
	return false
}
