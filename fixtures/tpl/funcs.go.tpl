//go:build !gontainerstub

// Fixture package __PKGID__ — values, constructors, methods, decorators, parameter functions.
// Every symbol is self-identifying (PkgID) and reports to fixt/rec.
package __PKGNAME__

import (
	"errors"
	"fmt"
	"strings"

	"fixt/rec"
	"github.com/gontainer/gontainer-helpers/v3/container"
)

const PkgID = "__PKGID__"

func (o Obj) RecView() rec.View { return rec.View{Core: o.Core, F1: o.F1, F2: o.F2, F3: o.f3} }
func (o *Obj) ID() int64        { return o.Serial }

func (w *Wrapped) RecWrapped() rec.WView {
	return rec.WView{Serial: w.Serial, Pkg: PkgID, Fn: w.Fn, Tag: w.Tag, ServiceID: w.ServiceID, Inner: w.Inner, Args: w.Args}
}
func (w *Wrapped) ID() int64 { return w.Serial }

func mk(ctor string, args []interface{}) Obj {
	rec.Jitter()
	rec.Hit(PkgID + "." + ctor)
	return Obj{Core: rec.Core{Serial: rec.Next(), Pkg: PkgID, Ctor: ctor, Args: args, H: &rec.Hist{}}}
}

func New(args ...interface{}) *Obj   { o := mk("New", args); return &o }
func NewVal(args ...interface{}) Obj { return mk("NewVal", args) }

// MkVal returns the package's small value type (the Val types of all fixture packages are convertible into each other: same fields)
func MkVal(args ...interface{}) Val { return Val{N: 40 + len(args), S: PkgID} }

// NewTouch is New for a user who writes into the objects handed to the constructor.
func NewTouch(args ...interface{}) *Obj {
	for _, a := range args {
		if p, ok := a.(*Obj); ok && p != nil {
			v := p.scratch
			rec.Jitter()
			p.scratch = v + 1
		}
	}
	o := mk("NewTouch", args)
	return &o
}
func NewIface(args ...interface{}) Iface {
	o := mk("NewIface", args)
	return &o
}

// NewErr fails iff its first argument is the string "fail".
func NewErr(args ...interface{}) (*Obj, error) {
	if len(args) > 0 {
		if s, ok := args[0].(string); ok && s == "fail" {
			rec.Hit(PkgID + ".NewErr!")
			return nil, errors.New("NewErr failed in " + PkgID)
		}
	}
	o := mk("NewErr", args)
	return &o, nil
}

func newPtr(ctor string) *Obj { o := mk(ctor, nil); return &o }

var (
	Global    = mk("Global", nil)
	GlobalPtr = newPtr("GlobalPtr")
	Box       = struct {
		Inner Obj
		Ptr   *Obj
	}{Inner: mk("Box.Inner", nil), Ptr: newPtr("Box.Ptr")}
	GlobalVal = Val{N: 7, S: PkgID}
)

// Package-level symbols spelled like the local variables of generated code: a configuration may name any symbol of its
// own package, and what the generated file declares for itself must not get in the way.
var (
	newService, c, getParam, dependencyService, rootGontainer = New, New, New, New, New                    // constructors
	s, dependencyValue, callProvider, dependencyTag           = DecSame, DecSame, DecSame, DecSame          // decorators
	getEnv, getEnvInt, paramTodo, concatenateChunks, dependencyProvider = Fn, Fn, Fn, Fn, Fn                 // parameter functions
)

func init() {
	rec.OnReset(func() {
		for _, o := range []*Obj{&Global, GlobalPtr, &Box.Inner, Box.Ptr} {
			o.H.Reset()
			o.F1, o.F2, o.f3 = nil, nil, nil
		}
	})
}

func (o Obj) snap() [3]string {
	return [3]string{rec.Shallow(o.F1), rec.Shallow(o.F2), rec.Shallow(o.f3)}
}

// Set: pointer receiver call.
func (o *Obj) Set(args ...interface{}) {
	rec.Jitter()
	rec.Hit(PkgID + ".Set")
	if o.H == nil {
		o.H = &rec.Hist{}
	}
	o.H.Add(rec.Entry{Kind: "call", Method: "Set", Pkg: PkgID, Args: args, Snap: o.snap()})
}

// Touch: value receiver call (recorded in the shared history, or as an orphan event for history-less zero values).
func (o Obj) Touch(args ...interface{}) {
	rec.Jitter()
	rec.Hit(PkgID + ".Touch")
	if o.H == nil {
		rec.Emit(rec.Event{Kind: "orphan", Pkg: PkgID, Sym: "Touch", Serial: o.Serial, Args: args})
		return
	}
	o.H.Add(rec.Entry{Kind: "call", Method: "Touch", Pkg: PkgID, Args: args, Snap: o.snap()})
}

// With: value wither — a copy with a fresh serial, From = the old one, history carried over.
func (o Obj) With(args ...interface{}) Obj {
	rec.Jitter()
	rec.Hit(PkgID + ".With")
	n := o
	n.Serial = rec.Next()
	n.From = o.Serial
	n.H = o.H.Clone()
	n.H.Add(rec.Entry{Kind: "wither", Method: "With", Pkg: PkgID, Args: args, Snap: o.snap()})
	return n
}

// WithP: pointer wither.
func (o *Obj) WithP(args ...interface{}) *Obj {
	rec.Jitter()
	rec.Hit(PkgID + ".WithP")
	n := *o
	n.Serial = rec.Next()
	n.From = o.Serial
	n.H = o.H.Clone()
	n.H.Add(rec.Entry{Kind: "wither", Method: "WithP", Pkg: PkgID, Args: args, Snap: o.snap()})
	return &n
}

// Dec wraps the decorated service.
func Dec(p container.DecoratorPayload, args ...interface{}) interface{} {
	rec.Jitter()
	rec.Hit(PkgID + ".Dec")
	return &Wrapped{Serial: rec.Next(), Fn: "Dec", Tag: p.Tag, ServiceID: p.ServiceID, Inner: p.Service, Args: args}
}

// DecSame annotates the decorated service and returns it unchanged (same dynamic type).
func DecSame(p container.DecoratorPayload, args ...interface{}) interface{} {
	rec.Jitter()
	rec.Hit(PkgID + ".DecSame")
	e := rec.Entry{Kind: "dec", Method: "DecSame", Pkg: PkgID, Tag: p.Tag, ServiceID: p.ServiceID, Args: args}
	if v, ok := p.Service.(rec.Viewer); ok {
		if h := safeHist(v); h != nil {
			h.Add(e)
			return p.Service
		}
	}
	rec.Emit(rec.Event{Kind: "orphan", Pkg: PkgID, Sym: "DecSame:" + p.Tag + ":" + p.ServiceID, Args: args})
	return p.Service
}

func safeHist(v rec.Viewer) (h *rec.Hist) {
	defer func() {
		if recover() != nil {
			h = nil
		}
	}()
	return v.RecView().Core.H
}

// DecErr fails iff its first extra argument is the string "fail"; otherwise behaves like Dec.
func DecErr(p container.DecoratorPayload, args ...interface{}) (interface{}, error) {
	if len(args) > 0 {
		if s, ok := args[0].(string); ok && s == "fail" {
			return nil, errors.New("DecErr failed in " + PkgID)
		}
	}
	rec.Hit(PkgID + ".DecErr")
	return &Wrapped{Serial: rec.Next(), Fn: "DecErr", Tag: p.Tag, ServiceID: p.ServiceID, Inner: p.Service, Args: args}, nil
}

func shallowList(args []interface{}) string {
	parts := make([]string, len(args))
	for i, a := range args {
		parts[i] = rec.Shallow(a)
	}
	return strings.Join(parts, ",")
}

// Fn returns a string that identifies the package and the dynamic types/values of its arguments.
func Fn(args ...interface{}) (interface{}, error) {
	rec.Jitter()
	rec.Hit(PkgID + ".Fn")
	rec.Emit(rec.Event{Kind: "fn", Pkg: PkgID, Sym: "Fn", Args: args})
	return fmt.Sprintf("Fn<%s>(%s)", PkgID, shallowList(args)), nil
}

// FnEcho returns its first argument as is (nil without arguments).
func FnEcho(args ...interface{}) interface{} {
	rec.Jitter()
	rec.Hit(PkgID + ".FnEcho")
	if len(args) == 0 {
		return nil
	}
	return args[0]
}

func FnInt(args ...interface{}) int {
	rec.Jitter()
	rec.Hit(PkgID + ".FnInt")
	return 1000 + len(args)
}

// FnTyped has typed parameters: literal arguments written in a pattern have to be converted (2 -> float64, 3 -> int64).
func FnTyped(f float64, n int64, s string) string {
	rec.Jitter()
	rec.Hit(PkgID + ".FnTyped")
	return fmt.Sprintf("FnTyped<%s>(%s,%s,%s)", PkgID, rec.Shallow(f), rec.Shallow(n), rec.Shallow(s))
}

func FnFail(args ...interface{}) (interface{}, error) {
	rec.Hit(PkgID + ".FnFail")
	return nil, errors.New("FnFail<" + PkgID + ">")
}
