// Fixture package __PKGID__ — type declarations only (also visible with -tags gontainerstub).
package __PKGNAME__

import "fixt/rec"

type Obj struct {
	rec.Core
	F1, F2 interface{}
	f3     interface{}
	// scratch is written by NewTouch through every *Obj argument it is given (plain, unsynchronised writes: user code that
	// believes it owns what it was given)
	scratch int64
}

// Val is a small comparable value type.
type Val struct {
	N int
	S string
}

type Wrapped struct {
	Serial    int64
	Fn        string
	Tag       string
	ServiceID string
	Inner     interface{}
	Args      []interface{}
}

type Iface interface{ ID() int64 }

// Types spelled like local variables, parameters and results of the generated accessors: a configuration may name any type
// of its own package.
type (
	ctx     = Obj
	err     = Obj
	result  = Obj
	service = Obj
	ok      = Obj
)

// Reason is a named string type: its constants are convertible to string, not assignable to it (a `%todo(TodoReason)%` message).
type Reason string

const TodoReason Reason = "reason given as a typed constant"
