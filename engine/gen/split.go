package gen

import (
	"math/rand"
	"sort"

	"verif/cfg"
)

var fileNameSets = [][]string{
	{"gontainer.yaml"},
	{"b.yaml", "a.yaml"},
	{"z.yaml", "sub/c.yaml", "A.yaml", "m-n.yaml"},
	{"f7.yaml", "f1.yaml", "sub/f3.yaml", "F2.yaml", "f-5.yaml", "f6.yaml", "f4.yaml"},
	{"f10.yaml", "f9.yaml", "f1.yaml", "f11.yaml", "f2.yaml", "sub/f3.yaml", "f12.yaml", "f4.yaml", "F5.yaml", "f6.yaml", "f-7.yaml", "f8.yaml"},
}

// SplitParts distributes a configuration over k fragments such that merging them in order
// (documented rules: scalars override, mappings unite key-wise, non-empty arguments replace,
// calls/tags/decorators append) gives the configuration back.
func SplitParts(r *rand.Rand, c *cfg.Config, k int) []cfg.Config {
	parts := make([]cfg.Config, k)
	if k == 1 {
		parts[0] = c.Clone()
		return parts
	}
	pick := func() int { return r.Intn(k) }
	if c.Version != nil {
		v := *c.Version
		parts[pick()].Version = &v
	}
	m := c.Meta
	if m.Pkg != nil {
		parts[pick()].Meta.Pkg = cfg.P(*m.Pkg)
	}
	if m.ContainerType != nil {
		parts[pick()].Meta.ContainerType = cfg.P(*m.ContainerType)
	}
	if m.ContainerConstructor != nil {
		parts[pick()].Meta.ContainerConstructor = cfg.P(*m.ContainerConstructor)
	}
	if m.DefaultMustGetter != nil {
		parts[pick()].Meta.DefaultMustGetter = cfg.P(*m.DefaultMustGetter)
	}
	for _, kv := range m.Imports {
		p := pick()
		parts[p].Meta.Imports = append(parts[p].Meta.Imports, kv)
	}
	for _, kv := range m.Functions {
		p := pick()
		parts[p].Meta.Functions = append(parts[p].Meta.Functions, kv)
	}
	for _, kv := range c.Params {
		p := pick()
		parts[p].Params = append(parts[p].Params, kv)
	}
	// runs: n items cut into contiguous runs assigned to non-decreasing parts
	runs := func(n int) []int {
		idx := make([]int, n)
		for i := range idx {
			idx[i] = pick()
		}
		sort.Ints(idx)
		return idx
	}
	for _, s := range c.Services {
		frag := make([]*cfg.Service, k)
		get := func(p int) *cfg.Service {
			if frag[p] == nil {
				frag[p] = &cfg.Service{Name: s.Name}
			}
			return frag[p]
		}
		if s.Todo != nil {
			get(pick()).Todo = cfg.P(*s.Todo)
		}
		if s.Getter != nil {
			get(pick()).Getter = cfg.P(*s.Getter)
		}
		if s.MustGetter != nil {
			get(pick()).MustGetter = cfg.P(*s.MustGetter)
		}
		if s.Type != nil {
			get(pick()).Type = cfg.P(*s.Type)
		}
		if s.Value != nil {
			get(pick()).Value = cfg.P(*s.Value)
		}
		if s.Constructor != nil {
			get(pick()).Constructor = cfg.P(*s.Constructor)
		}
		if s.Scope != nil {
			get(pick()).Scope = cfg.P(*s.Scope)
		}
		if s.Args != nil {
			get(pick()).Args = append([]cfg.Val{}, s.Args...)
		}
		for _, f := range s.Fields {
			fr := get(pick())
			fr.Fields = append(fr.Fields, f)
		}
		for i, p := range runs(len(s.Calls)) {
			fr := get(p)
			fr.Calls = append(fr.Calls, s.Calls[i])
		}
		for i, p := range runs(len(s.Tags)) {
			fr := get(p)
			fr.Tags = append(fr.Tags, s.Tags[i])
		}
		any := false
		for p := range frag {
			if frag[p] != nil {
				parts[p].Services = append(parts[p].Services, *frag[p])
				any = true
			}
		}
		if !any {
			parts[pick()].Services = append(parts[pick()].Services, cfg.Service{Name: s.Name})
		}
	}
	for i, p := range runs(len(c.Decorators)) {
		parts[p].Decorators = append(parts[p].Decorators, c.Decorators[i])
	}
	return parts
}

// PureParts cuts the configuration into k fragments of which k-1 hold exactly ONE section each (only
// meta.functions, only decorators, only a meta scalar, ...), whole; the last fragment holds everything else.
// The fragments are returned in random order (no key is in two fragments, so the order is immaterial).
func PureParts(r *rand.Rand, c *cfg.Config, k int) []cfg.Config {
	rest := c.Clone()
	type kind struct {
		has  bool
		move func(dst *cfg.Config)
	}
	kinds := []kind{
		{c.Version != nil, func(d *cfg.Config) { d.Version, rest.Version = rest.Version, nil }},
		{c.Meta.Pkg != nil, func(d *cfg.Config) { d.Meta.Pkg, rest.Meta.Pkg = rest.Meta.Pkg, nil }},
		{c.Meta.ContainerType != nil, func(d *cfg.Config) { d.Meta.ContainerType, rest.Meta.ContainerType = rest.Meta.ContainerType, nil }},
		{c.Meta.ContainerConstructor != nil, func(d *cfg.Config) {
			d.Meta.ContainerConstructor, rest.Meta.ContainerConstructor = rest.Meta.ContainerConstructor, nil
		}},
		{c.Meta.DefaultMustGetter != nil, func(d *cfg.Config) { d.Meta.DefaultMustGetter, rest.Meta.DefaultMustGetter = rest.Meta.DefaultMustGetter, nil }},
		{len(c.Meta.Imports) > 0, func(d *cfg.Config) { d.Meta.Imports, rest.Meta.Imports = rest.Meta.Imports, nil }},
		{len(c.Meta.Functions) > 0, func(d *cfg.Config) { d.Meta.Functions, rest.Meta.Functions = rest.Meta.Functions, nil }},
		{len(c.Params) > 0, func(d *cfg.Config) { d.Params, rest.Params = rest.Params, nil }},
		{len(c.Services) > 0, func(d *cfg.Config) { d.Services, rest.Services = rest.Services, nil }},
		{len(c.Decorators) > 0, func(d *cfg.Config) { d.Decorators, rest.Decorators = rest.Decorators, nil }},
	}
	var present []int
	for i, kd := range kinds {
		if kd.has {
			present = append(present, i)
		}
	}
	r.Shuffle(len(present), func(i, j int) { present[i], present[j] = present[j], present[i] })
	parts := make([]cfg.Config, k)
	for i := 0; i < k-1 && i < len(present); i++ {
		kinds[present[i]].move(&parts[i])
	}
	parts[k-1] = rest
	r.Shuffle(k, func(i, j int) { parts[i], parts[j] = parts[j], parts[i] })
	return parts
}

// Split renders the configuration as 1 (mode 0), 2 (mode 1), 4 (mode 2), 4 single-section (mode 3), 7 (mode 4) or 12 (mode 5) files; each file is its own -i pattern, in order.
func Split(r *rand.Rand, c *cfg.Config, mode int) []cfg.File {
	if mode == 3 {
		// four files, three of them holding a single section each
		names := fileNameSets[2]
		parts := PureParts(r, c, len(names))
		files := make([]cfg.File, len(names))
		for i := range names {
			files[i] = cfg.File{Name: names[i], Content: parts[i].YAML()}
		}
		return files
	}
	set := mode
	if mode >= 4 {
		set = mode - 1
	}
	names := fileNameSets[set%len(fileNameSets)]
	parts := SplitParts(r, c, len(names))
	files := make([]cfg.File, len(names))
	for i := range names {
		files[i] = cfg.File{Name: names[i], Content: parts[i].YAML()}
	}
	return files
}

// GlobLayout renders the configuration as four files in sibling directories whose names are prefixes of each other
// (conf-x/, conf.d/, conf/, confx/), read through ONE pattern `conf*/part.yaml`. The merge order is the lexical order of the
// cleaned paths (`-` < `.` < `/` < `x`), not the order in which the directories are listed; earlier fragments carry decoy
// values that later ones override, so the order matters.
func GlobLayout(r *rand.Rand, c *cfg.Config) ([]cfg.File, []string) {
	names := []string{"conf-x/part.yaml", "conf.d/part.yaml", "conf/part.yaml", "confx/part.yaml"}
	parts := SplitParts(r, c, len(names))
	AddDecoys(r, parts)
	files := make([]cfg.File, len(names))
	for i := range names {
		files[i] = cfg.File{Name: names[i], Content: parts[i].YAML()}
	}
	return files, []string{"conf*/part.yaml"}
}

// AddEmpties puts explicit empty collections (arguments: [], calls: [], tags: [], fields: {}) into
// fragments LATER than the one holding the real content: "non-empty arguments replace", appended
// lists and united mappings must not be affected by them.
func AddEmpties(r *rand.Rand, parts []cfg.Config) {
	for p := 0; p+1 < len(parts); p++ {
		for _, s := range parts[p].Services {
			q := p + 1 + r.Intn(len(parts)-p-1)
			var d *cfg.Service
			for i := range parts[q].Services {
				if parts[q].Services[i].Name == s.Name {
					d = &parts[q].Services[i]
				}
			}
			if d == nil {
				if r.Intn(3) != 0 {
					continue
				}
				parts[q].Services = append(parts[q].Services, cfg.Service{Name: s.Name})
				d = &parts[q].Services[len(parts[q].Services)-1]
			}
			if len(s.Args) > 0 && d.Args == nil && r.Intn(2) == 0 {
				d.Args = []cfg.Val{}
			}
			if len(s.Calls) > 0 && d.Calls == nil && r.Intn(3) == 0 {
				d.Calls = []cfg.Call{}
			}
			if len(s.Tags) > 0 && d.Tags == nil && r.Intn(3) == 0 {
				d.Tags = []cfg.Tag{}
			}
			if len(s.Fields) > 0 && d.Fields == nil && r.Intn(3) == 0 {
				d.Fields = []cfg.KV{}
			}
		}
	}
}

// AddDecoys plants values in earlier fragments that a later fragment overrides (scalars,
// map keys, arguments), so that "later wins / non-empty arguments replace" is exercised.
// The merge of the fragments is unchanged.
func AddDecoys(r *rand.Rand, parts []cfg.Config) {
	for p := 1; p < len(parts); p++ {
		q := r.Intn(p) // an earlier fragment
		src, dst := &parts[p], &parts[q]
		if src.Meta.Pkg != nil && dst.Meta.Pkg == nil && r.Intn(2) == 0 {
			dst.Meta.Pkg = cfg.P("decoypkg")
		}
		if src.Meta.ContainerType != nil && dst.Meta.ContainerType == nil && r.Intn(2) == 0 {
			dst.Meta.ContainerType = cfg.P("DecoyType")
		}
		if src.Meta.ContainerConstructor != nil && dst.Meta.ContainerConstructor == nil && r.Intn(2) == 0 {
			dst.Meta.ContainerConstructor = cfg.P("DecoyConstructor")
		}
		if src.Version != nil && dst.Version == nil && r.Intn(2) == 0 {
			v := cfg.Str("0.0.1")
			dst.Version = &v
		}
		if src.Meta.DefaultMustGetter != nil && dst.Meta.DefaultMustGetter == nil && r.Intn(2) == 0 {
			dst.Meta.DefaultMustGetter = cfg.P(!*src.Meta.DefaultMustGetter)
		}
		hasKS := func(l []cfg.KS, k string) bool {
			for _, x := range l {
				if x.K == k {
					return true
				}
			}
			return false
		}
		for _, kv := range src.Meta.Imports {
			if !hasKS(dst.Meta.Imports, kv.K) && r.Intn(3) == 0 {
				dst.Meta.Imports = append(dst.Meta.Imports, cfg.KS{K: kv.K, V: "decoy/import/path"})
			}
		}
		for _, kv := range src.Meta.Functions {
			if !hasKS(dst.Meta.Functions, kv.K) && r.Intn(3) == 0 {
				dst.Meta.Functions = append(dst.Meta.Functions, cfg.KS{K: kv.K, V: "decoy.Func"})
			}
		}
		hasKV := func(l []cfg.KV, k string) bool {
			for _, x := range l {
				if x.K == k {
					return true
				}
			}
			return false
		}
		for _, kv := range src.Params {
			if !hasKV(dst.Params, kv.K) && r.Intn(3) == 0 {
				v := cfg.Str("decoy value")
				switch r.Intn(6) {
				case 0:
					v = cfg.Raw("[not, a, primitive]") // invalid on its own; the later file replaces it
				case 1:
					v = cfg.Str("%unclosed")
				case 2:
					v = cfg.Raw("{a: {b: 1}}")
				}
				dst.Params = append(dst.Params, cfg.KV{K: kv.K, V: v})
			}
		}
		for _, s := range src.Services {
			var d *cfg.Service
			for i := range dst.Services {
				if dst.Services[i].Name == s.Name {
					d = &dst.Services[i]
				}
			}
			if d == nil {
				if r.Intn(2) == 0 {
					continue
				}
				dst.Services = append(dst.Services, cfg.Service{Name: s.Name})
				d = &dst.Services[len(dst.Services)-1]
			}
			if s.Getter != nil && d.Getter == nil && r.Intn(2) == 0 {
				d.Getter = cfg.P("DecoyGetter")
			}
			if s.MustGetter != nil && d.MustGetter == nil && r.Intn(2) == 0 {
				d.MustGetter = cfg.P(!*s.MustGetter)
			}
			if s.Type != nil && d.Type == nil && r.Intn(2) == 0 {
				d.Type = cfg.P("*decoy.Type")
			}
			if s.Constructor != nil && d.Constructor == nil && r.Intn(2) == 0 {
				d.Constructor = cfg.P("decoy.New")
			}
			if s.Value != nil && d.Value == nil && r.Intn(2) == 0 {
				d.Value = cfg.P("decoy.Value")
			}
			if s.Scope != nil && d.Scope == nil && r.Intn(2) == 0 {
				d.Scope = cfg.P([]string{"shared", "contextual", "non_shared"}[r.Intn(3)])
			}
			if s.Todo != nil && d.Todo == nil && r.Intn(2) == 0 {
				d.Todo = cfg.P(!*s.Todo)
			}
			if len(s.Args) > 0 && len(d.Args) == 0 && r.Intn(2) == 0 {
				d.Args = []cfg.Val{cfg.Str("decoy"), cfg.Int(1), cfg.Str("@decoy")}
			}
			for _, f := range s.Fields {
				if !hasKV(d.Fields, f.K) && r.Intn(2) == 0 {
					d.Fields = append(d.Fields, cfg.KV{K: f.K, V: cfg.Str("decoy field")})
				}
			}
		}
	}
}
