// Package rec is the monitor's side of the fixture universe: instance serials, per-object
// histories, an orphan/function event log, invocation counters and the describer that
// turns anything a generated container hands out into a JSON tree.
// All state here is protected by its own locks and is never shared with the code it watches.
package rec

import (
	"fmt"
	"math"
	"math/rand"
	"reflect"
	"runtime"
	"strconv"
	"sync"
	"sync/atomic"
	"time"
)

var serial int64

// Next hands out instance serials from one atomic counter.
func Next() int64 { return atomic.AddInt64(&serial, 1) }

// Entry is one method/decorator application recorded in an object's history.
type Entry struct {
	Kind      string // call | wither | dec
	Method    string
	Pkg       string
	Tag       string
	ServiceID string
	Args      []interface{}
	Snap      [3]string
}

// Hist is shared by all copies of one object value (a pointer inside the struct).
type Hist struct {
	mu sync.Mutex
	e  []Entry
}

func (h *Hist) Add(e Entry) {
	h.mu.Lock()
	h.e = append(h.e, e)
	h.mu.Unlock()
}

func (h *Hist) Entries() []Entry {
	if h == nil {
		return nil
	}
	h.mu.Lock()
	defer h.mu.Unlock()
	return append([]Entry(nil), h.e...)
}

func (h *Hist) Clone() *Hist {
	n := &Hist{}
	if h != nil {
		n.e = h.Entries()
	}
	return n
}

func (h *Hist) Reset() {
	if h == nil {
		return
	}
	h.mu.Lock()
	h.e = nil
	h.mu.Unlock()
}

// Core is embedded in every fixture package's Obj.
type Core struct {
	Serial int64
	From   int64
	Pkg    string
	Ctor   string
	Args   []interface{}
	H      *Hist
}

// View is what the describer needs from an object, whatever package declared it.
type View struct {
	Core       Core
	F1, F2, F3 interface{}
}

type Viewer interface{ RecView() View }

// WView is the view of a decorator wrapper.
type WView struct {
	Serial    int64
	Pkg       string
	Fn        string
	Tag       string
	ServiceID string
	Inner     interface{}
	Args      []interface{}
}

type WViewer interface{ RecWrapped() WView }

// ---------------------------------------------------------------------------------------
// global event log (things that have no object to live in) and counters

type Event struct {
	Kind   string // fn | orphan | ctor
	Pkg    string
	Sym    string
	Serial int64
	Args   []interface{}
	Ctx    string
	G      int64
}

var (
	evMu     sync.Mutex
	events   []Event
	counters sync.Map // string -> *int64
	resets   []func()
	resetMu  sync.Mutex
)

func Emit(e Event) {
	evMu.Lock()
	events = append(events, e)
	evMu.Unlock()
}

// Drain returns and clears the events emitted since the last call.
func Drain() []Event {
	evMu.Lock()
	defer evMu.Unlock()
	r := events
	events = nil
	return r
}

func Hit(sym string) int64 {
	v, _ := counters.LoadOrStore(sym, new(int64))
	return atomic.AddInt64(v.(*int64), 1)
}

func Count(sym string) int64 {
	v, ok := counters.Load(sym)
	if !ok {
		return 0
	}
	return atomic.LoadInt64(v.(*int64))
}

func Counts() map[string]int64 {
	m := map[string]int64{}
	counters.Range(func(k, v interface{}) bool {
		m[k.(string)] = atomic.LoadInt64(v.(*int64))
		return true
	})
	return m
}

// OnReset registers a function restoring package-level fixture state.
func OnReset(f func()) {
	resetMu.Lock()
	resets = append(resets, f)
	resetMu.Unlock()
}

// Reset is called by the probe between containers.
func Reset() {
	resetMu.Lock()
	fs := append([]func(){}, resets...)
	resetMu.Unlock()
	for _, f := range fs {
		f()
	}
	evMu.Lock()
	events = nil
	evMu.Unlock()
	counters.Range(func(k, v interface{}) bool {
		atomic.StoreInt64(v.(*int64), 0)
		return true
	})
	ptrMu.Lock()
	ptrIDs = map[uintptr]int64{}
	ptrKeep = nil
	ptrMu.Unlock()
}

// ---------------------------------------------------------------------------------------
// stress mode (C20): delays injected inside user code, between the container's critical sections

var (
	jitterOn  int32
	jitterMu  sync.Mutex
	jitterRng = rand.New(rand.NewSource(1))
)

func SetJitter(on bool, seed int64) {
	jitterMu.Lock()
	jitterRng = rand.New(rand.NewSource(seed))
	jitterMu.Unlock()
	if on {
		atomic.StoreInt32(&jitterOn, 1)
	} else {
		atomic.StoreInt32(&jitterOn, 0)
	}
}

func Jitter() {
	if atomic.LoadInt32(&jitterOn) == 0 {
		return
	}
	jitterMu.Lock()
	d := jitterRng.Intn(200)
	jitterMu.Unlock()
	runtime.Gosched()
	if d > 40 {
		time.Sleep(time.Duration(d) * time.Microsecond)
	}
}

// ---------------------------------------------------------------------------------------
// describer

// D is the JSON description of a value. Serials are raw; the engine canonicalises them.
type D struct {
	K     string `json:"k"`
	T     string `json:"t,omitempty"`
	V     string `json:"v,omitempty"`
	ID    int64  `json:"id,omitempty"`
	Seen  bool   `json:"seen,omitempty"`
	Ptr   bool   `json:"ptr,omitempty"`
	Pkg   string `json:"pkg,omitempty"`
	Ctor  string `json:"ctor,omitempty"`
	From  int64  `json:"from,omitempty"`
	Args  []D    `json:"args,omitempty"`
	F     []D    `json:"f,omitempty"`
	Hist  []E    `json:"hist,omitempty"`
	Inner *D     `json:"inner,omitempty"`
	Tag   string `json:"tag,omitempty"`
	Svc   string `json:"svc,omitempty"`
	Fn    string `json:"fn,omitempty"`
	Elems []D    `json:"elems,omitempty"`
	Same  bool   `json:"same,omitempty"`
}

type E struct {
	Kind   string    `json:"kind"`
	Method string    `json:"method"`
	Pkg    string    `json:"pkg,omitempty"`
	Tag    string    `json:"tag,omitempty"`
	Svc    string    `json:"svc,omitempty"`
	Args   []D       `json:"args,omitempty"`
	Snap   [3]string `json:"snap"`
}

var (
	ptrMu   sync.Mutex
	ptrIDs  = map[uintptr]int64{}
	ptrKeep []interface{} // retained so that addresses are never reused
)

// ptrID gives serial-less pointer objects (struct literals, nil-serial globals) a stable identity.
func ptrID(v interface{}) int64 {
	p := reflect.ValueOf(v).Pointer()
	ptrMu.Lock()
	defer ptrMu.Unlock()
	if id, ok := ptrIDs[p]; ok {
		return id
	}
	id := Next()
	ptrIDs[p] = id
	ptrKeep = append(ptrKeep, v)
	return id
}

// current container under test (set by the probe); used to tell "the container itself" from another one
var current atomic.Value

func SetCurrent(rootPtr interface{}) { current.Store(&rootPtr) }

// RootOf is set by the probe: extracts the runtime root pointer of a value if it is a container.
var RootOf func(v interface{}) (root interface{}, ok bool)

func fmtFloat(f float64) string {
	switch {
	case math.IsNaN(f):
		return "NaN"
	case math.IsInf(f, 1):
		return "+Inf"
	case math.IsInf(f, -1):
		return "-Inf"
	case f == 0:
		return "0" // the sign of zero is not judged
	}
	return strconv.FormatFloat(f, 'g', -1, 64)
}

// Shallow is the snapshot form: scalars by value, everything else by kind only.
func Shallow(v interface{}) string {
	if v == nil {
		return "nil"
	}
	switch x := v.(type) {
	case bool:
		return "bool:" + strconv.FormatBool(x)
	case int:
		return "int:" + strconv.Itoa(x)
	case int64:
		return "int64:" + strconv.FormatInt(x, 10)
	case uint64:
		return "uint64:" + strconv.FormatUint(x, 10)
	case float64:
		return "float64:" + fmtFloat(x)
	case string:
		return "string:" + x
	}
	if _, ok := v.(WViewer); ok {
		return "wrapped"
	}
	if _, ok := v.(Viewer); ok {
		rv := reflect.ValueOf(v)
		if rv.Kind() == reflect.Ptr {
			if rv.IsNil() {
				return "nilobj"
			}
			return "objptr"
		}
		return "objval"
	}
	if RootOf != nil {
		if _, ok := RootOf(v); ok {
			return "container"
		}
	}
	if reflect.TypeOf(v).Kind() == reflect.Slice {
		return "slice"
	}
	return "other:" + fmt.Sprintf("%T", v)
}

type describer struct{ seen map[int64]bool }

// Describe renders v deeply; an object met twice inside one call is a stub the second time.
func Describe(v interface{}) D {
	d := &describer{seen: map[int64]bool{}}
	return d.desc(v, 0)
}

func (d *describer) list(vs []interface{}, depth int) []D {
	if len(vs) == 0 {
		return nil
	}
	r := make([]D, len(vs))
	for i, a := range vs {
		r[i] = d.desc(a, depth+1)
	}
	return r
}

func (d *describer) desc(v interface{}, depth int) D {
	if depth > 64 {
		return D{K: "toodeep"}
	}
	if v == nil {
		return D{K: "nil"}
	}
	switch x := v.(type) {
	case bool:
		return D{K: "scalar", T: "bool", V: strconv.FormatBool(x)}
	case int:
		return D{K: "scalar", T: "int", V: strconv.Itoa(x)}
	case int64:
		return D{K: "scalar", T: "int64", V: strconv.FormatInt(x, 10)}
	case uint64:
		return D{K: "scalar", T: "uint64", V: strconv.FormatUint(x, 10)}
	case float64:
		return D{K: "scalar", T: "float64", V: fmtFloat(x)}
	case string:
		return D{K: "scalar", T: "string", V: x}
	case []interface{}:
		return D{K: "slice", Elems: d.list(x, depth)}
	case error:
		return D{K: "error", V: x.Error()}
	}
	rv := reflect.ValueOf(v)
	if wv, ok := v.(WViewer); ok {
		if rv.Kind() == reflect.Ptr && rv.IsNil() {
			return D{K: "nilwrapped"}
		}
		w := wv.RecWrapped()
		out := D{K: "wrapped", ID: w.Serial, Pkg: w.Pkg, Fn: w.Fn, Tag: w.Tag, Svc: w.ServiceID}
		if d.seen[w.Serial] {
			out.Seen = true
			return out
		}
		d.seen[w.Serial] = true
		in := d.desc(w.Inner, depth+1)
		out.Inner = &in
		out.Args = d.list(w.Args, depth)
		return out
	}
	if ov, ok := v.(Viewer); ok {
		isPtr := rv.Kind() == reflect.Ptr
		if isPtr && rv.IsNil() {
			return D{K: "nilobj", T: fmt.Sprintf("%T", v)}
		}
		view := ov.RecView()
		id := view.Core.Serial
		if id == 0 && isPtr {
			id = ptrID(v)
		}
		out := D{K: "obj", T: fmt.Sprintf("%T", v), ID: id, Ptr: isPtr, Pkg: view.Core.Pkg, Ctor: view.Core.Ctor, From: view.Core.From}
		if id != 0 {
			if d.seen[id] {
				out.Seen = true
				return out
			}
			d.seen[id] = true
		}
		out.Args = d.list(view.Core.Args, depth)
		out.F = []D{d.desc(view.F1, depth+1), d.desc(view.F2, depth+1), d.desc(view.F3, depth+1)}
		for _, e := range view.Core.H.Entries() {
			out.Hist = append(out.Hist, E{Kind: e.Kind, Method: e.Method, Pkg: e.Pkg, Tag: e.Tag, Svc: e.ServiceID, Args: d.list(e.Args, depth), Snap: e.Snap})
		}
		return out
	}
	if RootOf != nil {
		if root, ok := RootOf(v); ok {
			out := D{K: "container", T: fmt.Sprintf("%T", v)}
			if cur, _ := current.Load().(*interface{}); cur != nil && *cur == root {
				out.Same = true
			}
			return out
		}
	}
	if rv.Kind() == reflect.Slice {
		out := D{K: "slice", T: fmt.Sprintf("%T", v)}
		for i := 0; i < rv.Len(); i++ {
			out.Elems = append(out.Elems, d.desc(rv.Index(i).Interface(), depth+1))
		}
		return out
	}
	return D{K: "other", T: fmt.Sprintf("%T", v), V: fmt.Sprintf("%v", v)}
}

// DescribeEvents renders drained events.
type DE struct {
	Kind   string `json:"kind"`
	Pkg    string `json:"pkg,omitempty"`
	Sym    string `json:"sym"`
	Serial int64  `json:"serial,omitempty"`
	Args   []D    `json:"args,omitempty"`
}

func DescribeEvents(es []Event) []DE {
	var r []DE
	for _, e := range es {
		d := &describer{seen: map[int64]bool{}}
		r = append(r, DE{Kind: e.Kind, Pkg: e.Pkg, Sym: e.Sym, Serial: e.Serial, Args: d.list(e.Args, 0)})
	}
	return r
}
