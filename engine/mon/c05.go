package mon

import (
	"fmt"
	"math/rand"
	"path/filepath"
	"sort"
	"strings"

	"verif/cfg"
	"verif/cli"
	"verif/gen"
	"verif/probe"
	"verif/ref"
	"verif/work"
)

func init() { Register("C05", "exploration", checkC05) }

var scopeChoices = []string{"", "shared", "contextual", "non_shared"}

// edge kinds realising "si depends on sj"
const (
	ekNone = iota
	ekArg
	ekField
	ekCall
	ekTagged
	ekDecorator
	ekDecTagged // a decorator on a tag of si whose argument is `!tagged t`, t carried by sj
	ekCount
)

// tagsNamedLikeCarriers renames every tag to the name of the first service that carries it (tags and services are different
// name spaces: `!tagged listener` and `@listener` may both exist). ok=false: a service would carry the same tag twice.
func tagsNamedLikeCarriers(c *cfg.Config) (*cfg.Config, bool) {
	n := c.Clone()
	to := map[string]string{}
	for _, s := range n.Services {
		for _, t := range s.Tags {
			if _, seen := to[t.Name]; !seen {
				to[t.Name] = s.Name
			}
		}
	}
	if len(to) == 0 {
		return &n, false
	}
	ren := func(v cfg.Val) cfg.Val {
		if v.Kind == "str" && strings.HasPrefix(v.S, "!tagged ") {
			if nn, ok := to[strings.TrimPrefix(v.S, "!tagged ")]; ok {
				return cfg.Str("!tagged " + nn)
			}
		}
		return v
	}
	for i := range n.Services {
		s := &n.Services[i]
		seen := map[string]bool{}
		for k := range s.Tags {
			if nn, ok := to[s.Tags[k].Name]; ok {
				s.Tags[k].Name = nn
			}
			if seen[s.Tags[k].Name] {
				return &n, false
			}
			seen[s.Tags[k].Name] = true
		}
		for k := range s.Args {
			s.Args[k] = ren(s.Args[k])
		}
		for k := range s.Fields {
			s.Fields[k].V = ren(s.Fields[k].V)
		}
		for k := range s.Calls {
			for a := range s.Calls[k].Args {
				s.Calls[k].Args[a] = ren(s.Calls[k].Args[a])
			}
		}
	}
	for i := range n.Decorators {
		d := &n.Decorators[i]
		if nn, ok := to[d.Tag]; ok {
			d.Tag = nn
		}
		for a := range d.Args {
			d.Args[a] = ren(d.Args[a])
		}
	}
	return &n, true
}

// scopeGraphConfig builds the configuration for n services, edge kinds ek[i][j] (i<j) and scopes sc[i].
func scopeGraphConfig(n int, ek [][]int, sc []string) *cfg.Config {
	c := &cfg.Config{Meta: cfg.Meta{Pkg: cfg.P("gen"), Imports: []cfg.KS{{K: "pa", V: "fixt/pa"}}}}
	for i := 0; i < n; i++ {
		s := cfg.Service{Name: fmt.Sprintf("s%d", i), Constructor: cfg.P("pa.New")}
		if sc[i] != "" {
			s.Scope = cfg.P(sc[i])
		}
		c.Services = append(c.Services, s)
	}
	for i := 0; i < n; i++ {
		for j := i + 1; j < n; j++ {
			si, sj := &c.Services[i], &c.Services[j]
			switch ek[i][j] {
			case ekArg:
				si.Args = append(si.Args, cfg.Str("@"+sj.Name))
			case ekField:
				f := []string{"F1", "F2", "f3"}[len(si.Fields)%3]
				si.Fields = append(si.Fields, cfg.KV{K: f, V: cfg.Str("@" + sj.Name)})
			case ekCall:
				si.Calls = append(si.Calls, cfg.Call{Method: "Set", Args: []cfg.Val{cfg.Str("@" + sj.Name)}})
			case ekTagged:
				tag := fmt.Sprintf("t%d", j)
				has := false
				for _, t := range sj.Tags {
					has = has || t.Name == tag
				}
				if !has {
					sj.Tags = append(sj.Tags, cfg.Tag{Name: tag})
				}
				si.Args = append(si.Args, cfg.Str("!tagged "+tag))
			case ekDecorator:
				tag := fmt.Sprintf("d%d-%d", i, j)
				si.Tags = append(si.Tags, cfg.Tag{Name: tag})
				c.Decorators = append(c.Decorators, cfg.Decorator{Tag: tag, Decorator: "pa.DecSame", Args: []cfg.Val{cfg.Str("@" + sj.Name)}})
			case ekDecTagged:
				tag := fmt.Sprintf("e%d-%d", i, j)
				other := fmt.Sprintf("m%d-%d", i, j)
				si.Tags = append(si.Tags, cfg.Tag{Name: tag})
				sj.Tags = append(sj.Tags, cfg.Tag{Name: other})
				c.Decorators = append(c.Decorators, cfg.Decorator{Tag: tag, Decorator: "pa.DecSame", Args: []cfg.Val{cfg.Int(int64(i)), cfg.Str("!tagged " + other)}})
			}
		}
	}
	return c
}

func pairKey(a, b string) string { return a + " -> " + b }

// judgeScopeVerdict compares the tool's Scope section with the reference scope errors.
func judgeScopeVerdict(c *Ctx, conf *cfg.Config, run *cli.Run, files map[string]string) {
	judgeScopeVerdictOpt(c, conf, run, files, true)
}

func judgeScopeVerdictOpt(c *Ctx, conf *cfg.Config, run *cli.Run, files map[string]string, onlyDefect bool) {
	g := ref.BuildGraph(conf)
	want := map[string]bool{}
	for _, p := range ref.ScopeErrors(conf, g) {
		want[pairKey(p[0], p[1])] = true
	}
	sec := run.Rep.Section("Scope")
	if sec == nil {
		c.Inconclusive("the report has no Scope step: scope diagnostics cannot be attributed")
		return
	}
	got := map[string]bool{}
	for _, d := range sec.Errors {
		names := cli.Names(d)
		if len(names) < 2 {
			c.Violate("scope-diagnostic-names", fmt.Sprintf("Scope diagnostic does not name two services: %q", d), files)
			continue
		}
		got[pairKey(names[0], names[1])] = true
	}
	if sec.Status == "fail" && len(sec.Errors) == 0 && sec.Count > 0 {
		// attribution by counts failed (contract monitor reports that); fall back to the whole list
		for _, d := range run.Rep.List {
			if n := cli.Names(d); len(n) >= 2 {
				got[pairKey(n[0], n[1])] = true
			}
		}
	}
	for k := range want {
		if !got[k] {
			c.Violate("scope-conflict-not-reported", fmt.Sprintf("declared-shared service transitively depends on a contextual one but it is not reported: %s\nreport:\n%s", k, run.Res.Stdout), files)
		}
	}
	var extra []string
	for k := range got {
		if !want[k] {
			extra = append(extra, k)
		}
	}
	sort.Strings(extra)
	if len(extra) > 0 && sec.Status == "fail" {
		// only pairs of the Scope section are judged; tolerate attribution fallback noise from other sections
		if len(sec.Errors) > 0 {
			c.Violate("scope-false-conflict", fmt.Sprintf("reported scope conflict(s) that do not exist: %v\nreport:\n%s", extra, run.Res.Stdout), files)
		}
	}
	if len(want) == 0 && sec.Status == "fail" {
		c.Violate("scope-rejected-without-conflict", "configuration rejected for scope reasons without a shared->contextual dependency\n"+run.Res.Stdout, files)
	}
	if len(want) > 0 && run.Res.Exit == 0 && (onlyDefect || true) {
		c.Violate("scope-conflict-accepted", fmt.Sprintf("configuration with scope conflicts %v was accepted", keys(want)), files)
	}
}

func keys(m map[string]bool) []string {
	var out []string
	for k := range m {
		out = append(out, k)
	}
	sort.Strings(out)
	return out
}

func checkC05(c *Ctx) error {
	c.Rule = "(1) build-time half, exhaustive: every dependency structure on <=3 services (edges i->j for i<j, each realised as @ argument, field, call argument, !tagged, decorator-on-own-tag with an @ argument or with a !tagged argument) x every assignment of {unset, shared, contextual, non_shared}: 4 + 112 + 21 952 configurations, plus variants with an undefined dependency next to the real ones run under --ignore-missing-services, through the real binary (quick: seeded sample of 3 500), Scope section compared with the reference scope rule; (2) run-time half: seeded configurations with explicit scopes on most services, executed with histories Get x2, getter, GetInContext(ctx1) x2, GetInContext(ctx2), GetTaggedBy(InContext) and compared with the reference identity model; for a third of them two further containers are built by the same constructor function and must not hand out a common instance. distinct = distinct configuration text; non-trivial = >=2 services with >=1 dependency edge and >=1 explicit scope"
	c.Assumptions = []string{"reference scope rule engine/ref (B.6) and identity model (B.7)", "instance identity is observed through fixture serials"}
	w := c.W
	// ---- (1) exhaustive small graphs: verdicts through the real binary
	type job struct {
		conf *cfg.Config
		key  string
	}
	var jobs []job
	for n := 1; n <= 3; n++ {
		pairs := n * (n - 1) / 2
		total := 1
		for i := 0; i < pairs; i++ {
			total *= ekCount
		}
		scTotal := 1
		for i := 0; i < n; i++ {
			scTotal *= len(scopeChoices)
		}
		for e := 0; e < total; e++ {
			ek := make([][]int, n)
			for i := range ek {
				ek[i] = make([]int, n)
			}
			x := e
			for i := 0; i < n; i++ {
				for j := i + 1; j < n; j++ {
					ek[i][j] = x % ekCount
					x /= ekCount
				}
			}
			for s := 0; s < scTotal; s++ {
				sc := make([]string, n)
				y := s
				for i := 0; i < n; i++ {
					sc[i] = scopeChoices[y%len(scopeChoices)]
					y /= len(scopeChoices)
				}
				conf := scopeGraphConfig(n, ek, sc)
				jobs = append(jobs, job{conf, fmt.Sprintf("n%d/e%d/s%d", n, e, s)})
				// the same structure with every tag named like the service that carries it
				if (e+2*s)%7 == 3 {
					if tw, ok := tagsNamedLikeCarriers(conf); ok {
						jobs = append(jobs, job{tw, fmt.Sprintf("n%d/e%d/s%d/tags-named-like-services", n, e, s)})
					}
				}
				// the same structure with `!tagged<other white space>tag` requests (round 13)
				if (e+3*s)%11 == 5 && strings.Contains(conf.YAML(), "!tagged ") {
					rs := conf.Clone()
					respellTagged(&rs, e+s)
					jobs = append(jobs, job{&rs, fmt.Sprintf("n%d/e%d/s%d/tagged-respelled", n, e, s)})
				}
				// the same structure with every service that takes no constructor argument declared as a `value:` service:
				// what its fields and calls are given still counts (round 13, S245)
				if (e+5*s)%9 == 4 {
					vs := conf.Clone()
					changed := false
					for i := range vs.Services {
						if x := &vs.Services[i]; len(x.Args) == 0 && len(x.Fields)+len(x.Calls) > 0 {
							x.Constructor, x.Value = nil, cfg.P("&pa.Obj{}")
							changed = true
						}
					}
					if changed {
						jobs = append(jobs, job{&vs, fmt.Sprintf("n%d/e%d/s%d/value-services", n, e, s)})
					}
				}
				// the same structure with an undefined dependency next to the real ones (sorting before / after every
				// service name); run with --ignore-missing-services, the scope verdict must not change
				if (e+s)%5 == 0 && n >= 2 {
					dang := conf.Clone()
					who := (e + s) % n
					missing := []string{"aaa", "zzz"}[(e/5+s)%2]
					dang.Services[who].Args = append([]cfg.Val{cfg.Str("@" + missing)}, dang.Services[who].Args...)
					jobs = append(jobs, job{&dang, fmt.Sprintf("n%d/e%d/s%d/dangling", n, e, s)})
				}
				// a service that is only a todo placeholder keeps the scope it is declared with (as a dependency it is a
				// declared-contextual service); as a dependant it has no dependencies at all
				if (e+s)%7 == 0 && n >= 2 {
					td := conf.Clone()
					who := n - 1
					if (e/7+s)%3 == 0 {
						who = (e + s) % n
					}
					td.Services[who].Todo = cfg.P(true)
					jobs = append(jobs, job{&td, fmt.Sprintf("n%d/e%d/s%d/todo%d", n, e, s, who)})
				}
			}
		}
	}
	c.Set("small_graph_space", len(jobs))
	exhaustive := c.Thorough()
	if !exhaustive {
		r := rand.New(rand.NewSource(c.Seed))
		r.Shuffle(len(jobs), func(i, j int) { jobs[i], jobs[j] = jobs[j], jobs[i] })
		jobs = jobs[:3500]
	}
	c.Set("small_graphs_run", len(jobs))
	c.Set("small_graphs_exhaustive", exhaustive)
	Par(len(jobs), 16, func(i int) {
		j := jobs[i]
		dir := w.TempDir("c05v")
		yaml := j.conf.YAML()
		_ = work.WriteFile(filepath.Join(dir, "in.yaml"), []byte(yaml))
		out := filepath.Join(dir, "out.go")
		args := []string{"build", "-i", "in.yaml", "-o", out}
		if strings.HasSuffix(j.key, "/dangling") {
			args = append(args, "--ignore-missing-services")
		}
		var run cli.Run
		if i%4 == 1 {
			// the output path already holds what the tool generated a moment ago for another, valid configuration
			var ok bool
			if run, ok = cli.DoAfter(w, "", nil, dir, out, args...); ok {
				c.Add("runs_over_an_earlier_generated_output", 1)
			}
		} else if i%8 == 3 {
			// the configuration arrives through a named pipe (next to an empty one in a regular file)
			var seen bool
			if run, seen = cli.DoPiped(w, "", nil, dir, out, "in.yaml", yaml, args...); seen {
				c.Add("runs_with_the_configuration_read_from_a_pipe", 1)
			} else {
				c.Add("runs_with_a_pipe_the_tool_did_not_read_completely", 1)
			}
		} else {
			run = cli.Do(w, "", nil, dir, out, args...)
		}
		files := map[string]string{"input/in.yaml": yaml, "stdout.txt": run.Res.Stdout}
		for _, b := range run.Contract() {
			c.Side("C10,C12", "cli-contract:"+sigWords(b), b+"\n"+run.Res.Stdout+run.Res.Stderr, files)
		}
		nontriv := len(j.conf.Services) >= 2 && strings.Contains(yaml, "scope:") && (strings.Contains(yaml, "@s") || strings.Contains(yaml, "!tagged"))
		c.Eval("v:"+yaml, nontriv)
		if run.Res.Exit != 0 {
			c.Add("verdict_rejected", 1)
		} else {
			c.Add("verdict_accepted", 1)
		}
		judgeScopeVerdict(c, j.conf, &run, files)
		if i == 7 {
			c.Sample(map[string]any{"kind": "small-graph verdict", "config": yaml, "exit": run.Res.Exit, "scope_errors": run.Rep.ErrorsOf("Scope")})
		}
	})
	// ---- (2) run-time identity histories
	lab, err := probe.NewLab(w)
	if err != nil {
		return err
	}
	var units []*probe.Unit
	n := c.Pick(400, 6000)
	for i := 0; i < n; i++ {
		r := rand.New(rand.NewSource(c.Seed*1000003 + int64(i)))
		o := gen.DefaultOpts()
		o.ContextualBias = true
		o.ScopeProb = 0.75
		o.NonFinite = false
		o.NoGlobals = i%3 == 0
		conf := gen.Behaviour(r, o)
		ops := StdOps(conf, r, true)
		if i%4 == 1 {
			var ok bool
			if ops, ok = runtimeDecoratorOps(conf, ops, r); ok {
				c.Add("histories_with_a_decorator_registered_at_run_time", 1)
			}
		}
		if o.NoGlobals {
			// "once per container": two more containers built by the same constructor function share nothing they hand out
			// (only where no service is a package-level variable of the fixtures)
			ind := probe.Op{Op: "independent"}
			for _, sv := range conf.Services {
				ind.Ops = append(ind.Ops, probe.Op{Op: "get", Name: sv.Name})
				for _, t := range sv.Tags {
					ind.Ops = append(ind.Ops, probe.Op{Op: "tagged", Name: t.Name})
				}
			}
			ops = append(ops, ind)
		}
		// every other configuration is spread over 2 or 4 files (scope, constructor and the rest of a service may sit in different files)
		u := &probe.Unit{ID: idOf(i), Cfg: conf, Files: gen.Split(r, conf, i%4), Ops: ops}
		if i%5 == 4 {
			// scope, constructor and decoys of one service in sibling directories read through one wildcard: which file wins is
			// decided by the lexical order of the cleaned paths
			u.Files, u.Patterns = gen.GlobLayout(r, conf)
		}
		units = append(units, u)
	}
	// a sample of the small graphs is executed as well (accepted ones only)
	k := 0
	for _, j := range jobs {
		if k >= c.Pick(150, 1700) {
			break
		}
		g := ref.BuildGraph(j.conf)
		if len(ref.ScopeErrors(j.conf, g)) > 0 || strings.HasSuffix(j.key, "/dangling") {
			continue
		}
		r := rand.New(rand.NewSource(c.Seed + int64(k)))
		units = append(units, &probe.Unit{ID: fmt.Sprintf("c9%04d", k), Cfg: j.conf, Files: []probe.File{{Name: "gontainer.yaml", Content: j.conf.YAML()}}, Ops: StdOps(j.conf, r, true)})
		k++
	}
	defer func() {
		for _, u := range units {
			for i, op := range u.Ops {
				if op.Op != "independent" || i >= len(u.Results) {
					continue
				}
				r := u.Results[i]
				c.Add("container_pairs_checked_for_independence", 1)
				c.Add("identities_compared_between_containers", int(r.Counts["identities_of_first_container"]))
				if r.Err != "" {
					c.Violate("containers-share-instances", fmt.Sprintf("unit %s: two containers built by the same constructor function are not independent: %s", u.ID, r.Err), unitFiles(u))
				}
			}
		}
	}()
	return behaviourUnits(c, lab, units, func(conf *cfg.Config) bool {
		sc := false
		for _, s := range conf.Services {
			sc = sc || s.Scope != nil
		}
		g := ref.BuildGraph(conf)
		edges := 0
		for _, m := range g.SvcEdges {
			edges += len(m)
		}
		return sc && edges > 0 && len(conf.Services) >= 2
	}, false)
}
