// Package stubprobe inspects --stub outputs built with -tags gontainerstub: the API by
// reflection, and that the constructor and every generated method panic when called.
package stubprobe

import (
	"context"
	"encoding/json"
	"fmt"
	"os"
	"reflect"
	"sort"

	"fixt/apidump"
)

type entry struct {
	name string
	ctor interface{} // func() *T
}

var reg []entry

func Register(name string, ctor interface{}) { reg = append(reg, entry{name, ctor}) }

type Res struct {
	C          string            `json:"c"`
	API        *apidump.API      `json:"api"`
	CtorSig    string            `json:"ctor_sig"`
	CtorPanics string            `json:"ctor_panics"` // recovered panic value ("" = returned normally)
	Calls      map[string]string `json:"calls"`       // own method -> recovered panic value, "" if it returned
}

func try(f func()) (p string) {
	defer func() {
		if r := recover(); r != nil {
			p = fmt.Sprint(r)
			if p == "" {
				p = "(empty panic)"
			}
		}
	}()
	f()
	return ""
}

func Main() {
	out, err := os.Create(os.Args[1])
	if err != nil {
		fmt.Fprintln(os.Stderr, err)
		os.Exit(2)
	}
	defer out.Close()
	enc := json.NewEncoder(out)
	sort.Slice(reg, func(i, j int) bool { return reg[i].name < reg[j].name })
	for _, e := range reg {
		cv := reflect.ValueOf(e.ctor)
		ct := cv.Type()
		r := Res{C: e.name, CtorSig: apidump.Sig(ct, 0), Calls: map[string]string{}}
		if ct.NumOut() == 1 {
			t := ct.Out(0)
			r.API = apidump.Of(t)
			r.CtorPanics = try(func() { cv.Call(nil) })
			// call every method declared by the generated file itself (not promoted from the embedded runtime container)
			if t.Kind() == reflect.Ptr && t.Elem().Kind() == reflect.Struct {
				promoted := map[string]bool{}
				for i := 0; i < t.Elem().NumField(); i++ {
					f := t.Elem().Field(i)
					if f.Anonymous {
						for j := 0; j < f.Type.NumMethod(); j++ {
							promoted[f.Type.Method(j).Name] = true
						}
					}
				}
				recv := reflect.New(t.Elem())
				for i := 0; i < t.NumMethod(); i++ {
					m := t.Method(i)
					if promoted[m.Name] {
						continue
					}
					args := []reflect.Value{recv}
					ok := true
					for k := 1; k < m.Type.NumIn(); k++ {
						if m.Type.In(k).String() == "context.Context" {
							args = append(args, reflect.ValueOf(context.Background()))
						} else {
							ok = false
						}
					}
					if !ok {
						r.Calls[m.Name] = "(unexpected parameters: " + apidump.Sig(m.Type, 1) + ")"
						continue
					}
					mm := m
					p := try(func() { mm.Func.Call(args) })
					r.Calls[m.Name] = p
				}
			}
		}
		_ = enc.Encode(r)
	}
}
