// Package gen holds the seeded configuration generators. Case lists are a function of
// (seed, tier) only.
package gen

import (
	"fmt"
	"math"
	"math/rand"
	"sort"
	"strconv"
	"strings"

	"verif/cfg"
	"verif/ref"
)

// PkgForm is one way of writing a reference to a fixture package.
type PkgForm struct {
	Path    string // denoted package ("" = current)
	Written string // as written before the dot ("" = no import part)
	Quoted  bool
}

// Opts steer the behaviour generator.
type Opts struct {
	MaxServices   int
	Scopes        bool // generate explicit scope keywords
	NonFinite     bool // allow .inf/.nan literals
	HostileAlias  bool // alias names that are string prefixes of other things (C14)
	Getters       bool
	Decorators    bool
	Fail          bool // failing constructors / todo services / failing functions
	ValueGetters  bool // getters with value (non-pointer) types
	MainPkg       bool // leave meta.pkg unset (package main)
	ContextualBias bool
	TagBias       bool // many tags, priorities with ties, several decorators
	NoGlobals     bool // no service is a package-level variable (race-free user code for C20)
	ScopeProb     float64
	StdPkgs       bool    // services, values, types and functions taken from the packages the template itself imports (context, errors, fmt, os, reflect, strconv, the runtime's container package); compile-level checks only: the reference container does not model them
	BigProb       float64 // share of configurations with two-digit counts of everything (services, parameters, tags, decorators, arguments, calls, functions)
}

func DefaultOpts() Opts {
	return Opts{MaxServices: 6, Scopes: true, NonFinite: true, Getters: true, Decorators: true, Fail: true, ValueGetters: true, BigProb: 0.1}
}

type G struct {
	R       *rand.Rand
	O       Opts
	C       *cfg.Config
	aliases []cfg.KS
	fixt    map[string]string
	fnNames map[string]string // registered function name -> symbol
	tags    []string
	big     bool
}

var fixtPaths = func() []string {
	var out []string
	for _, p := range cfg.FixturePkgs {
		out = append(out, p.Path)
	}
	return out
}()

func (g *G) pick(n int) int { return g.R.Intn(n) }
func (g *G) chance(p float64) bool { return g.R.Float64() < p }

func choose[T any](g *G, xs ...T) T { return xs[g.R.Intn(len(xs))] }

// forms lists the ways a package can be written given the alias table; every form is
// checked against the reference alias resolver (an alias may shadow the first segment of a full path).
func (g *G) forms(path string) []PkgForm {
	if path == "" {
		return []PkgForm{{Path: "", Written: ""}, {Path: "", Written: `"."`, Quoted: true}}
	}
	im := ref.Imports{Aliases: map[string]string{}}
	for _, a := range g.aliases {
		im.Aliases[a.K] = a.V
	}
	var fs []PkgForm
	add := func(w string) {
		if im.Resolve(w) == path {
			fs = append(fs, PkgForm{Path: path, Written: w}, PkgForm{Path: path, Written: `"` + w + `"`, Quoted: true})
		}
	}
	add(path)
	for _, a := range g.aliases {
		if a.V == path {
			add(a.K)
		}
		if strings.HasPrefix(path, a.V+"/") {
			add(a.K + strings.TrimPrefix(path, a.V))
		}
	}
	return fs
}

// Ref writes `[import.]sym` in a random form. multiDot symbols need a quoted import (docs/SERVICES.md).
func (g *G) Ref(path, sym string) string {
	fs := g.forms(path)
	if len(fs) == 0 {
		fs = g.forms("") // the alias table leaves no way to write this package: use the current one
	}
	multi := strings.Contains(strings.TrimSuffix(sym, "{}"), ".")
	var ok []PkgForm
	for _, f := range fs {
		if multi && !f.Quoted {
			continue
		}
		ok = append(ok, f)
	}
	f := ok[g.pick(len(ok))]
	if f.Written == "" {
		return sym
	}
	return f.Written + "." + sym
}

func (g *G) anyPkg() string {
	if g.chance(0.25) {
		return ""
	}
	p := fixtPaths[g.pick(len(fixtPaths))]
	if len(g.forms(p)) == 0 {
		return ""
	}
	return p
}

func (g *G) literal() cfg.Val {
	switch g.pick(12) {
	case 0:
		return cfg.Int(int64(g.pick(100)))
	case 1:
		return cfg.Int(-int64(g.pick(1000)) - 1)
	case 2:
		return cfg.Uint(math.MaxUint64 - uint64(g.pick(5)))
	case 3:
		return cfg.Float(float64(g.pick(1000))/8+0.125, "")
	case 4:
		return cfg.Float(1e21, "1e+21")
	case 5:
		return cfg.Bool(g.chance(0.5))
	case 6:
		return choose(g, cfg.Null(), cfg.Val{Kind: "null", Text: "null"})
	case 7:
		if g.O.NonFinite {
			return choose(g, cfg.Float(math.Inf(1), ".inf"), cfg.Float(math.Inf(-1), "-.inf"), cfg.Float(math.NaN(), ".nan"))
		}
		return cfg.Int(7)
	case 8:
		return cfg.Int(math.MaxInt64)
	case 9:
		return cfg.Int(math.MinInt64)
	case 10:
		return cfg.Float(-2.5, "-2.5")
	case 11:
		// other spellings YAML accepts for numbers
		return choose(g, cfg.Val{Kind: "int", I: 31, Text: "0x1F"}, cfg.Val{Kind: "int", I: 15, Text: "0o17"}, cfg.Val{Kind: "int", I: 1000, Text: "1_000"},
			cfg.Val{Kind: "int", I: 5, Text: "+5"}, cfg.Val{Kind: "int", I: -31, Text: "-0x1F"}, cfg.Val{Kind: "uint", U: math.MaxUint64, Text: "0xFFFFFFFFFFFFFFFF"},
			cfg.Float(1000, "1e3"), cfg.Float(0.5, ".5"), cfg.Float(-0.0, "-0.0"), cfg.Val{Kind: "bool", B: true, Text: "True"}, cfg.Val{Kind: "null", Text: "Null"})
	}
	return cfg.Int(int64(g.pick(10)))
}

var plainStrings = []string{"", "x", "hello world", "a:b", "100%%", "%%", "é✓", "line\nbreak", `q"uote`, `back\slash`, "tab\there", "@", "$", "!", "#c", "'", "{}", "[x]", " ", "𝄞", "\x01", "nul-\u0000"[:4], "%%a%%", "- a", "yes", "null", "~", "1", "true", "0x10", "1e3", "! value X", "!valueX", "$gontainer ", " @s",
	// text that means something to Go, to text/template or to fmt if it is ever pasted unquoted
	"`back`tick", "*/ end of comment", "// not a comment", "/* open", "{{.Output}}", "}}{{", "{{ end }}", "%%!d(MISSING)", "%%v %%s %%[1]d", "${HOME}", "$(id)", "\\n not a newline", "\"; os.Exit(3); \"",
	"a\r\nb", "\u2028\u2029", "\ufeffbom", strings.Repeat("long ", 1200)}

func (g *G) plainString() string {
	if g.chance(0.004) {
		// one line of more than 64 KiB (a certificate bundle, a licence text): nothing may be cut off
		return "BEGIN-" + strings.Repeat("0123456789abcdef", 4200+g.pick(3000)) + "-END"
	}
	return plainStrings[g.pick(len(plainStrings))]
}

// litCode renders a Go literal for a function argument.
func (g *G) fnArgs() string {
	n := g.pick(4)
	parts := make([]string, n)
	for i := range parts {
		switch g.pick(7) {
		case 0:
			parts[i] = fmt.Sprint(g.pick(50))
		case 1:
			parts[i] = fmt.Sprintf("-%d", g.pick(50)+1)
		case 2:
			parts[i] = choose(g, `"s"`, `"a b"`, `"x,y"`, `"(z)"`, `"é"`, `""`, `"\"q\""`, `"\\"`, `"a  b.  c"`, `"  "`, `" lead"`, "\"t\tb\"", `"t\tb"`, "`raw,comma`", "`a ,b`", `"5\",black"`, `"\\",",q"`, "`\"`, `\",x`")
		case 3:
			parts[i] = choose(g, "1.5", "0.25", "2e3")
		case 4:
			parts[i] = choose(g, "true", "false")
		case 5:
			parts[i] = "nil"
		default:
			parts[i] = fmt.Sprint(g.pick(9))
		}
	}
	sep := choose(g, ", ", ",", " , ")
	return strings.Join(parts, sep)
}

// pattern builds a string made of chunks; paramsBefore are the names it may reference.
func (g *G) pattern(paramsBefore []string) string {
	n := 1 + g.pick(3)
	if g.chance(0.4) {
		n = 1
	} else if g.chance(0.2) {
		n = 4 + g.pick(5) // long patterns
	}
	var sb strings.Builder
	for i := 0; i < n; i++ {
		switch k := g.pick(10); {
		case k < 3 && len(paramsBefore) > 0:
			sb.WriteString("%" + paramsBefore[g.pick(len(paramsBefore))] + "%")
		case k < 5:
			fn := g.fnName()
			if fn == "" {
				sb.WriteString("lit")
				continue
			}
			sb.WriteString("%" + fn + "(" + g.fnArgsFor(fn) + ")%")
		case k == 5:
			sb.WriteString("%%")
		default:
			s := g.plainString()
			s = strings.ReplaceAll(s, "%", "") // literal chunks must not introduce stray %
			sb.WriteString(s)
		}
	}
	return sb.String()
}

// special reports whether a string would be taken for one of the special argument forms.
func special(s string) bool {
	a := ref.Classify(cfg.Str(s))
	return a.Kind != ref.ArgPattern
}

// argPattern is a pattern that is safe in argument position (not mistaken for a special form).
func (g *G) argPattern(params []string) string {
	s := g.pattern(params)
	if special(s) {
		s = "_" + s
	}
	return s
}

func (g *G) fnName() string {
	if len(g.fnNames) == 0 {
		return ""
	}
	var ns []string
	for n, sym := range g.fnNames {
		if !g.O.Fail && (sym == "FnFail" || sym == "todo") {
			continue
		}
		ns = append(ns, n)
	}
	sort.Strings(ns)
	if len(ns) == 0 {
		return ""
	}
	// failing functions are rarer
	n := ns[g.pick(len(ns))]
	if s := g.fnNames[n]; (s == "FnFail" || s == "todo") && g.chance(0.7) {
		n = ns[g.pick(len(ns))]
	}
	return n
}

func (g *G) fnArgsFor(fn string) string {
	switch g.fnNames[fn] {
	case "env":
		if g.chance(0.8) {
			return fmt.Sprintf(`"VERIF_ENV_%d", %s`, g.pick(3), choose(g, `"dflt"`, `""`, `"d e"`, `"d  e"`, "`d,e`", `"d\",e ,f"`))
		}
		return fmt.Sprintf(`"VERIF_ENV_%d"`, g.pick(3))
	case "envInt":
		if g.chance(0.8) {
			return fmt.Sprintf(`"VERIF_ENVI_%d", %d`, g.pick(3), g.pick(9000))
		}
		return fmt.Sprintf(`"VERIF_ENVI_%d"`, g.pick(3))
	case "todo":
		if g.chance(0.4) {
			return ""
		}
		return choose(g, `"later"`, `"in development"`, `""`, `"parameter"`, `"not  yet.  Ask  ops"`, "\"tab\there \"", `" x "`, `"first", "second"`, `"only the first counts", "x", "y"`, `"", "ignored"`, `"50\x25 done"`, `"100\u0025d of it"`, `"\045s and \x25v"`, "`soon,or later`", `"say \"when\",then go"`)
	case "FnTyped":
		return choose(g, `2, 10, "s"`, `1.5, 3, "x y"`, `0, -4, ""`, `7, 0, "é"`)
	}
	return g.fnArgs()
}

// argument produces one argument; svcBefore are services that may be referenced without creating a cycle.
func (g *G) argument(svcBefore, params []string) cfg.Val {
	switch k := g.pick(20); {
	case k < 5:
		return g.literal()
	case k < 8 && len(svcBefore) > 0:
		return cfg.Str("@" + svcBefore[g.pick(len(svcBefore))])
	case k < 10 && len(g.tags) > 0:
		return cfg.Str(choose(g, "!tagged ", "!tagged  ", "!tagged\t") + g.tags[g.pick(len(g.tags))])
	case k == 10:
		return cfg.Str("$gontainer")
	case k < 13:
		return cfg.Str(choose(g, "!value ", "!value  ", "!value\t", "!value \t ", "!value\n", "!value \n  ", "!value\r\n") + g.valueExpr())
	case k < 15 && len(params) > 0:
		return cfg.Str("%" + params[g.pick(len(params))] + "%")
	default:
		return cfg.Str(g.argPattern(params))
	}
}

func (g *G) valueExpr() string {
	p := g.anyPkg()
	sym := choose(g, "Global", "GlobalPtr", "Box.Inner", "Box.Ptr", "Obj{}", "GlobalVal", "PkgID", "Global", "Obj{}")
	amp := ""
	switch sym {
	case "Global", "Box.Inner", "Obj{}":
		if g.chance(0.5) {
			amp = "&"
		}
	case "GlobalPtr", "Box.Ptr":
		if g.chance(0.3) {
			amp = "*" // the documented `*Value` form: the pointed-to value
		}
	}
	return amp + g.Ref(p, sym)
}

func (g *G) args(n int, svcBefore, params []string) []cfg.Val {
	out := make([]cfg.Val, n)
	for i := range out {
		out[i] = g.argument(svcBefore, params)
	}
	return out
}

// Behaviour generates one configuration inside the modelled subset.
func Behaviour(r *rand.Rand, o Opts) *cfg.Config {
	g := &G{R: r, O: o, C: &cfg.Config{}, fnNames: map[string]string{}}
	c := g.C
	// thresholds: one configuration in ten has 9-20 of everything, so that two-digit indices, names like s10 < s9,
	// maps beyond eight entries and lists beyond nine elements occur
	g.big = g.chance(o.BigProb)
	// meta
	if !o.MainPkg {
		c.Meta.Pkg = cfg.P(choose(g, "gen", "pk", "container", "di", "fmt", "context", "errors", "reflect", "caller", "exporter", "x_1"))
	}
	if g.chance(0.3) {
		c.Meta.ContainerType = cfg.P(choose(g, "Ctr", "myContainer", "DI", "Gontainer2", "Container2", "T", "Service", "Err"))
	}
	if g.chance(0.3) {
		c.Meta.ContainerConstructor = cfg.P(choose(g, "Build", "NewCtr", "NewDI", "Make_It", "NewService", "Get", "String"))
	}
	if g.chance(0.5) {
		c.Meta.DefaultMustGetter = cfg.P(g.chance(0.5))
	}
	// aliases (safe names: no alias is a string prefix of another alias, of a referenced path or of a template import)
	cand := []cfg.KS{{K: "pa", V: "fixt/pa"}, {K: "pb", V: "fixt/pb"}, {K: "dp", V: "fixt/deep/pa"}, {K: "xy", V: "fixt/x-y.v2"}, {K: "zfmt", V: "fixt/fmt"}, {K: "zos", V: "fixt/os"}, {K: "fx", V: "fixt"}, {K: "d-p.q_r", V: "fixt/deep"}, {K: "alib", V: "aaa.test/lib"}, {K: "zt", V: "zzz.test"}}
	if o.HostileAlias {
		// names that are string prefixes of each other, of referenced paths, or of / equal to the packages the template imports
		cand = []cfg.KS{{K: "f", V: "fixt/pa"}, {K: "fm", V: "fixt/pb"}, {K: "fmt", V: "fixt/deep/pa"}, {K: "o", V: "fixt/x-y.v2"}, {K: "os", V: "fixt/fmt"},
			{K: "github.com", V: "fixt/os"}, {K: "github", V: "fixt"}, {K: "e", V: "fixt"}, {K: "errors", V: "fixt/deep"}, {K: "a", V: "fixt/pa"}, {K: "ab", V: "fixt/pb"}, {K: "abc", V: "fixt/os"},
			{K: "c", V: "fixt/fmt"}, {K: "context", V: "fixt/pa"}, {K: "reflect", V: "fixt/pb"}, {K: "strconv", V: "fixt/deep/pa"}, {K: "fixt", V: "fixt/pb"}, {K: "fi", V: "fixt/pa"}, {K: "g", V: "fixt/pa"},
			{K: "aux", V: "fixt/pa"}, {K: "con", V: "fixt/pb"}, {K: "nul", V: "fixt/os"}, {K: "com1", V: "fixt/deep/pa"}, {K: "LPT9", V: "fixt"}, {K: "prn.x", V: "fixt/deep"}}
	}
	r.Shuffle(len(cand), func(i, j int) { cand[i], cand[j] = cand[j], cand[i] })
	g.aliases = cand[:g.pick(len(cand)+1)]
	if g.big && !o.HostileAlias {
		g.aliases = cand
	}
	c.Meta.Imports = append(c.Meta.Imports, g.aliases...)
	// functions
	fnCand := []struct{ name, sym string }{{"fn", "Fn"}, {"echo", "FnEcho"}, {"fnint", "FnInt"}, {"boom", "FnFail"}, {"f2", "Fn"}, {"Echo_2", "FnEcho"}, {"typed", "FnTyped"}}
	if g.big {
		for i := 3; i <= 12; i++ {
			fnCand = append(fnCand, struct{ name, sym string }{fmt.Sprintf("fn%d", i), choose(g, "Fn", "FnEcho")})
		}
	}
	for _, fc := range fnCand {
		if g.chance(0.6) || g.big {
			c.Meta.Functions = append(c.Meta.Functions, cfg.KS{K: fc.name, V: g.Ref(g.anyPkg(), fc.sym)})
			g.fnNames[fc.name] = fc.sym
		}
	}
	g.fnNames["env"] = "env"
	g.fnNames["envInt"] = "envInt"
	g.fnNames["todo"] = "todo"
	// a configuration may register its own function under the name of a built-in one: its own wins
	for _, b := range []string{"env", "todo", "envInt"} {
		if g.chance(0.06) {
			sym := choose(g, "Fn", "FnEcho")
			c.Meta.Functions = append(c.Meta.Functions, cfg.KS{K: b, V: g.Ref(g.anyPkg(), sym)})
			g.fnNames[b] = sym
		}
	}
	// tags pool
	// tag names overlap with service and parameter names (a graph keyed by bare names would confuse them) and differ by case
	tagPool := []string{"t", "u-1", "v.w", "x_y", "s0", "a.b1", "p0", "T", "svc1"}
	if g.big {
		tagPool = append(tagPool, "t10", "t9", "t1", "z-tag", "A.b", "k_1", "s10", "p11")
	}
	r.Shuffle(len(tagPool), func(i, j int) { tagPool[i], tagPool[j] = tagPool[j], tagPool[i] })
	g.tags = tagPool[:1+g.pick(4)]
	if g.big {
		g.tags = tagPool[:9+g.pick(len(tagPool)-8)]
	}
	// params
	np := 2 + g.pick(6)
	if g.big {
		np = 9 + g.pick(12)
	}
	var pnames []string
	for i := 0; i < np; i++ {
		name := choose(g, "p", "q", "host", "a.b", "c-d", "e_f", "s", "svc", "P", "Host") + fmt.Sprint(i)
		var v cfg.Val
		switch k := g.pick(10); {
		case k < 4:
			v = g.literal()
		case k < 6:
			v = cfg.Str(g.plainStringNoPct())
		default:
			v = cfg.Str(g.pattern(pnames))
		}
		c.Params = append(c.Params, cfg.KV{K: name, V: v})
		pnames = append(pnames, name)
	}
	// numeric twins: the integer n and the float n.0 are different values of different types, wherever they stand
	if g.chance(0.3) {
		n := int64(g.pick(9) + 1)
		if g.chance(0.3) {
			n = -n
		}
		c.Params = append(c.Params, cfg.KV{K: "numTwinI", V: cfg.Int(n)}, cfg.KV{K: "numTwinF", V: cfg.Float(float64(n), fmt.Sprintf("%d.0", n))})
		pnames = append(pnames, "numTwinI", "numTwinF")
	}
	// a parameter may be named like a registered function (env, todo, fn, …): `%env%` is a reference to it, `%env(…)%` a call
	if g.chance(0.15) {
		fn := choose(g, "env", "todo", "envInt")
		if n := g.fnName(); n != "" && g.chance(0.5) {
			fn = n
		}
		if ref.IsYamlToken(fn) {
			taken := false
			for _, kv := range c.Params {
				taken = taken || kv.K == fn
			}
			if !taken {
				c.Params = append(c.Params, cfg.KV{K: fn, V: cfg.Str("a parameter named like a function")}, cfg.KV{K: "usesFnName" + fn, V: cfg.Str("<%" + fn + "%>")})
				pnames = append(pnames, fn)
			}
		}
	}
	// services
	ns := 1 + g.pick(o.MaxServices)
	if g.big {
		ns = 9 + g.pick(10)
	}
	var snames []string
	for i := 0; i < ns; i++ {
		name := choose(g, "s", "svc", "a.b", "c-d", "db_x", "p", "S", "Svc", "t") + fmt.Sprint(i)
		s := g.service(name, snames, pnames)
		c.Services = append(c.Services, s)
		snames = append(snames, name)
	}
	if o.StdPkgs && g.chance(0.6) {
		g.addStdServices()
	}
	// name twins: names that differ only in their separators or in letter case (a.b1 / a-b1 / a_b1 / ab1 / A.b1) are different
	// names; anything the generated code derives from a name must keep them apart
	if g.chance(0.3) {
		variants := func(n string) []string {
			var out []string
			for _, sep := range []string{".", "-", "_", ""} {
				v := n
				for _, old := range []string{".", "-", "_"} {
					v = strings.ReplaceAll(v, old, sep)
				}
				out = append(out, v, strings.ToUpper(v[:1])+v[1:], strings.ToLower(v[:1])+v[1:])
			}
			return out
		}
		taken := map[string]bool{}
		for _, sv := range c.Services {
			taken[sv.Name] = true
		}
		if len(c.Services) > 0 {
			base := c.Services[g.pick(len(c.Services))].Name
			for _, v := range variants(base) {
				if !taken[v] && ref.IsYamlToken(v) && g.chance(0.5) {
					taken[v] = true
					c.Services = append(c.Services, cfg.Service{Name: v, Constructor: cfg.P(g.Ref(g.anyPkg(), "New")), Args: []cfg.Val{cfg.Str(v)}})
				}
			}
		}
		ptaken := map[string]bool{}
		for _, kv := range c.Params {
			ptaken[kv.K] = true
		}
		if len(c.Params) > 0 {
			base := c.Params[g.pick(len(c.Params))].K
			for _, v := range variants(base) {
				if !ptaken[v] && ref.IsYamlToken(v) && g.chance(0.5) {
					ptaken[v] = true
					c.Params = append(c.Params, cfg.KV{K: v, V: cfg.Str("twin of " + base)})
				}
			}
		}
	}
	// text twins: a parameter whose value is the very text of a special argument used by a service (`@svc`, `!tagged t`,
	// `!value X`, `$gontainer`): as a parameter it is a plain string, as an argument it is the special form
	if g.chance(0.25) {
		var texts []string
		for _, s := range c.Services {
			for _, a := range s.Args {
				if a.Kind == "str" && special(a.S) && !strings.Contains(a.S, "%") {
					texts = append(texts, a.S)
				}
			}
		}
		for i := 0; i < 2 && len(texts) > 0; i++ {
			c.Params = append(c.Params, cfg.KV{K: fmt.Sprintf("aaTwin%d", i), V: cfg.Str(texts[g.pick(len(texts))])})
		}
	}
	// decorators
	if o.Decorators {
		nd := g.pick(4)
		if o.TagBias {
			nd = 1 + g.pick(5)
		}
		if g.big {
			nd = 8 + g.pick(6)
		}
		for i := 0; i < nd; i++ {
			tag := g.tags[g.pick(len(g.tags))]
			if g.chance(0.08) {
				tag = "*"
			}
			fn := choose(g, "Dec", "DecSame", "DecSame", "DecErr")
			d := cfg.Decorator{Tag: tag, Decorator: g.Ref(g.anyPkg(), fn)}
			na := g.pick(3)
			if na > 0 || g.chance(0.3) {
				d.Args = g.args(na, snames, pnames)
				if fn == "DecErr" && na > 0 && d.Args[0].Kind == "str" && d.Args[0].S == "fail" {
					d.Args[0] = cfg.Str("ok")
				}
			}
			c.Decorators = append(c.Decorators, d)
		}
	}
	// decorators whose argument lists print alike but are different values: 8080 / "8080", 7 / 7.0, true / "true", null / "<nil>"
	if len(c.Decorators) > 0 && g.chance(0.35) {
		src := c.Decorators[g.pick(len(c.Decorators))]
		tw := cfg.Decorator{Tag: src.Tag, Decorator: src.Decorator}
		if len(src.Args) == 0 || g.chance(0.4) {
			n := int64(g.pick(9000))
			src2 := src
			src2.Args = []cfg.Val{cfg.Int(n), cfg.Bool(true), cfg.Null()}
			if strings.HasSuffix(src.Decorator, "DecErr") {
				src2.Args = append([]cfg.Val{cfg.Str("ok")}, src2.Args...)
			}
			c.Decorators = append(c.Decorators, src2)
			src = src2
		}
		changed := false
		for _, a := range src.Args {
			switch a.Kind {
			case "int":
				if g.chance(0.5) {
					tw.Args = append(tw.Args, cfg.Str(strconv.FormatInt(a.I, 10)))
				} else {
					tw.Args = append(tw.Args, cfg.Float(float64(a.I), fmt.Sprintf("%d.0", a.I)))
				}
				changed = changed || (a.I > -1<<50 && a.I < 1<<50)
			case "bool":
				tw.Args = append(tw.Args, cfg.Str(strconv.FormatBool(a.B)))
				changed = true
			case "null":
				tw.Args = append(tw.Args, cfg.Str("<nil>"))
				changed = true
			default:
				tw.Args = append(tw.Args, a)
			}
		}
		if changed {
			c.Decorators = append(c.Decorators, tw)
		}
	}
	// the same decorator may be declared more than once (also in different files): it is applied once per declaration
	if len(c.Decorators) > 0 && g.chance(0.3) {
		c.Decorators = append(c.Decorators, c.Decorators[g.pick(len(c.Decorators))])
	}
	// shuffle declaration order of maps (the tool sorts by name; order in YAML must not matter)
	r.Shuffle(len(c.Services), func(i, j int) { c.Services[i], c.Services[j] = c.Services[j], c.Services[i] })
	r.Shuffle(len(c.Params), func(i, j int) { c.Params[i], c.Params[j] = c.Params[j], c.Params[i] })
	g.repair()
	if o.Getters {
		g.addGetters()
	}
	return c
}

const helpersContainer = "github.com/gontainer/gontainer-helpers/v3/container"

// stdRef writes a reference to a symbol of a package outside the fixture universe, in a form the alias table leaves alone.
func (g *G) stdRef(path, sym string) (string, bool) {
	im := ref.Imports{Aliases: map[string]string{}}
	for _, a := range g.aliases {
		im.Aliases[a.K] = a.V
	}
	var ok []string
	for _, w := range []string{path, `"` + path + `"`} {
		if strings.Contains(path, "/") && !strings.HasPrefix(w, `"`) && g.chance(0.5) {
			continue
		}
		if im.Resolve(w) == path {
			ok = append(ok, w)
		}
	}
	if len(ok) == 0 {
		return "", false
	}
	return ok[g.pick(len(ok))] + "." + sym, true
}

// addStdServices declares services, a function and parameters that use the very packages the generated file imports for
// itself: the user's use and the template's use must end up as one import each, in normal and in stub mode.
func (g *G) addStdServices() {
	type std struct {
		pkg, ctor, value string
		args             []cfg.Val
		tpkg, typ        string
		ptr              bool
	}
	cands := []std{
		{pkg: "context", ctor: "Background", tpkg: "context", typ: "Context"},
		{pkg: "context", ctor: "TODO"},
		{pkg: "errors", ctor: "New", args: []cfg.Val{cfg.Str("boom")}},
		{pkg: "fmt", ctor: "Sprint", args: []cfg.Val{cfg.Int(1), cfg.Str("a")}},
		{pkg: "fmt", ctor: "Errorf", args: []cfg.Val{cfg.Str("x")}},
		{pkg: "os", ctor: "Getenv", args: []cfg.Val{cfg.Str("HOME")}},
		{pkg: "strconv", ctor: "Itoa", args: []cfg.Val{cfg.Int(5)}},
		{pkg: "reflect", ctor: "TypeOf", args: []cfg.Val{cfg.Int(5)}, tpkg: "reflect", typ: "Type"},
		{pkg: helpersContainer, ctor: "New", tpkg: helpersContainer, typ: "Container", ptr: true},
		{pkg: "os", value: "Stdout", tpkg: "os", typ: "File", ptr: true},
		{pkg: "context", value: "Canceled"},
		{pkg: "os", value: "Args"},
	}
	n := 1 + g.pick(3)
	for i := 0; i < n; i++ {
		sd := cands[g.pick(len(cands))]
		s := cfg.Service{Name: fmt.Sprintf("std%d", i)}
		sym := sd.ctor + sd.value
		w, ok := g.stdRef(sd.pkg, sym)
		if !ok {
			continue
		}
		if sd.ctor != "" {
			s.Constructor = cfg.P(w)
			s.Args = sd.args
		} else {
			s.Value = cfg.P(w)
		}
		if sd.typ != "" && g.chance(0.6) {
			if t, ok := g.stdRef(sd.tpkg, sd.typ); ok {
				if sd.ptr {
					t = "*" + t
				}
				s.Type = cfg.P(t)
				if g.chance(0.7) {
					s.Getter = cfg.P(fmt.Sprintf("GetStd%d", i))
					if g.chance(0.5) {
						s.MustGetter = cfg.P(g.chance(0.7))
					}
				}
			}
		}
		if g.O.Scopes && g.chance(0.3) {
			s.Scope = cfg.P(choose(g, "shared", "contextual", "non_shared"))
		}
		g.C.Services = append(g.C.Services, s)
	}
	if g.chance(0.5) {
		if w, ok := g.stdRef("strconv", "Itoa"); ok {
			g.C.Meta.Functions = append(g.C.Meta.Functions, cfg.KS{K: "itoa", V: w})
			g.C.Params = append(g.C.Params, cfg.KV{K: "stdp0", V: cfg.Str("n=%itoa(5)%")})
		}
	}
	if g.chance(0.3) {
		if w, ok := g.stdRef("os", "Stdout"); ok && len(g.C.Services) > 0 {
			for i := range g.C.Services {
				if s := &g.C.Services[i]; s.Constructor != nil && !s.IsTodo() && strings.HasSuffix(*s.Constructor, ".New") {
					s.Args = append(s.Args, cfg.Str("!value "+w))
					break
				}
			}
		}
	}
}

func (g *G) plainStringNoPct() string {
	return strings.ReplaceAll(g.plainString(), "%", "")
}

func (g *G) service(name string, before, params []string) cfg.Service {
	s := cfg.Service{Name: name}
	o := g.O
	todoFull := false
	if o.Fail && g.chance(0.06) {
		s.Todo = cfg.P(true)
		if g.chance(0.5) {
			return s
		}
		// a placeholder that still carries a complete definition (the common way of switching a service off for a while):
		// everything but the name and the declared scope is ignored
		todoFull = true
	}
	_ = todoFull
	pkg := g.anyPkg()
	isObj := true // calls/fields are possible
	switch k := g.pick(20); {
	case k < 9:
		s.Constructor = cfg.P(g.Ref(pkg, "New"))
	case k < 11:
		s.Constructor = cfg.P(g.Ref(pkg, "NewVal"))
	case k < 12:
		s.Constructor = cfg.P(g.Ref(pkg, "NewIface"))
	case k < 14:
		s.Constructor = cfg.P(g.Ref(pkg, "NewErr"))
	case k < 18:
		sym := choose(g, "Global", "GlobalPtr", "Box.Inner", "Box.Ptr", "Obj{}", "Obj{}", "GlobalVal")
		if g.O.NoGlobals {
			sym = choose(g, "Obj{}", "Obj{}", "GlobalVal")
		}
		amp := ""
		switch sym {
		case "Global", "Box.Inner", "Obj{}":
			if g.chance(0.5) {
				amp = "&"
			}
		case "GlobalVal":
			isObj = false
		case "GlobalPtr", "Box.Ptr":
			if g.chance(0.3) {
				amp = "*"
			}
		}
		s.Value = cfg.P(amp + g.Ref(pkg, sym))
	default:
		t := choose(g, "Obj", "*Obj", "Iface", "Val")
		isObj = t == "Obj"
		if strings.HasPrefix(t, "*") {
			s.Type = cfg.P("*" + g.Ref(pkg, "Obj"))
		} else {
			s.Type = cfg.P(g.Ref(pkg, t))
		}
	}
	if s.Constructor != nil {
		n := g.pick(5)
		if g.big && g.chance(0.3) {
			n = 9 + g.pick(5)
		}
		if n > 0 || g.chance(0.2) {
			s.Args = g.args(n, before, params)
		}
		// a literal and the string that prints the same (8080 / "8080", true / "true"): they must stay different things
		if g.chance(0.3) {
			l := g.literal()
			twin := l.Text
			switch l.Kind {
			case "null":
				twin = choose(g, "<nil>", "nil", "null", "~")
			case "float":
				twin = choose(g, l.Text, fmt.Sprint(l.F))
			}
			if special(twin) || strings.Contains(twin, "%") {
				twin = "7"
				l = cfg.Int(7)
			}
			if g.chance(0.5) {
				s.Args = append(s.Args, l, cfg.Str(twin))
			} else {
				s.Args = append(s.Args, cfg.Str(twin), l)
			}
			if g.chance(0.4) {
				n := int64(g.pick(5) + 2)
				s.Args = append(s.Args, cfg.Int(n), cfg.Float(float64(n), fmt.Sprintf("%d.0", n)))
			}
		}
		if strings.HasSuffix(*s.Constructor, "NewErr") {
			if o.Fail && g.chance(0.3) {
				s.Args = append([]cfg.Val{cfg.Str("fail")}, s.Args...)
			} else if len(s.Args) > 0 && s.Args[0].Kind == "str" && s.Args[0].S == "fail" {
				s.Args[0] = cfg.Str("fine")
			}
		}
	}
	if isObj {
		for _, f := range []string{"F1", "F2", "f3"} {
			if g.chance(0.25) {
				s.Fields = append(s.Fields, cfg.KV{K: f, V: g.argument(before, params)})
			}
		}
		g.R.Shuffle(len(s.Fields), func(i, j int) { s.Fields[i], s.Fields[j] = s.Fields[j], s.Fields[i] })
		nc := g.pick(4)
		if g.chance(0.4) {
			nc = 0
		}
		if g.big && g.chance(0.25) {
			nc = 9 + g.pick(4)
		}
		for i := 0; i < nc; i++ {
			m := choose(g, "Set", "Set", "Touch", "With", "WithP", "With", "WithP")
			cl := cfg.Call{Method: m, Args: g.args(g.pick(3), before, params)}
			switch m {
			case "With", "WithP":
				if g.chance(0.75) {
					cl.Wither = cfg.P(true)
				} else if g.chance(0.5) {
					cl.Wither = cfg.P(false)
				}
			default:
				if g.chance(0.2) {
					cl.Wither = cfg.P(false)
				} else if len(cl.Args) == 0 && g.chance(0.5) {
					cl.NoArgs = true
				}
			}
			s.Calls = append(s.Calls, cl)
		}
		if len(s.Calls) > 0 && g.chance(0.3) {
			// the same call once more, identical in every respect: each declared call is executed
			s.Calls = append(s.Calls, s.Calls[g.pick(len(s.Calls))])
		}
	}
	// explicit empty collections are legal and must mean "nothing"
	if isObj && s.Calls == nil && g.chance(0.08) {
		s.Calls = []cfg.Call{}
	}
	if isObj && s.Fields == nil && g.chance(0.08) {
		s.Fields = []cfg.KV{}
	}
	// tags
	tagP := 0.3
	if o.TagBias {
		tagP = 0.6
	}
	if g.big {
		tagP = choose(g, 0.15, 0.3, 0.9)
	}
	for _, t := range g.tags {
		if g.chance(tagP) {
			tag := cfg.Tag{Name: t}
			if g.chance(0.6) {
				tag.Prio = cfg.P(choose(g, -2147483648, -5, -1, 0, 0, 1, 1, 5, 2147483647,
					// neighbours that a float64 cannot tell apart, and the ends of the range
					9007199254740992, 9007199254740993, 9007199254740994, -9007199254740993, -9007199254740992,
					9223372036854775807, 9223372036854775806, -9223372036854775808, -9223372036854775807, 2147483648, -2147483649))
			}
			s.Tags = append(s.Tags, tag)
		}
	}
	sp := 0.35
	if o.ScopeProb > 0 {
		sp = o.ScopeProb
	}
	if s.Tags == nil && g.chance(0.05) {
		s.Tags = []cfg.Tag{}
	}
	if o.Scopes && g.chance(sp) {
		if o.ContextualBias {
			s.Scope = cfg.P(choose(g, "shared", "contextual", "contextual", "non_shared"))
		} else {
			s.Scope = cfg.P(choose(g, "shared", "contextual", "non_shared"))
		}
	}
	return s
}

// repair removes cycles and scope conflicts so that the configuration is accepted.
func (g *G) repair() {
	c := g.C
	for iter := 0; iter < 50; iter++ {
		gr := ref.BuildGraph(c)
		cyc := gr.ServicesOnCycle()
		if len(cyc) == 0 {
			break
		}
		// neutralise service/tag references of one service on a cycle, and of decorators attached to its tags
		var names []string
		for n := range cyc {
			names = append(names, n)
		}
		sort.Strings(names)
		s := c.Service(names[0])
		neutral := func(v *cfg.Val) {
			a := ref.Classify(*v)
			if a.Kind == ref.ArgService || a.Kind == ref.ArgTagged {
				*v = cfg.Int(0)
			}
		}
		for i := range s.Args {
			neutral(&s.Args[i])
		}
		for i := range s.Fields {
			neutral(&s.Fields[i].V)
		}
		for i := range s.Calls {
			for j := range s.Calls[i].Args {
				neutral(&s.Calls[i].Args[j])
			}
		}
		for di := range c.Decorators {
			for _, t := range s.Tags {
				if c.Decorators[di].Tag == t.Name {
					for j := range c.Decorators[di].Args {
						neutral(&c.Decorators[di].Args[j])
					}
				}
			}
		}
	}
	for iter := 0; iter < 50; iter++ {
		gr := ref.BuildGraph(c)
		errs := ref.ScopeErrors(c, gr)
		if len(errs) == 0 {
			break
		}
		s := c.Service(errs[0][0])
		if g.chance(0.5) {
			s.Scope = nil
		} else {
			s.Scope = cfg.P("contextual")
		}
	}
}

// addGetters gives some services getters whose declared type matches the dynamic type the
// reference container predicts.
func (g *G) addGetters() {
	c := g.C
	fixt := map[string]string{}
	for _, p := range cfg.FixturePkgs {
		fixt[p.Path] = p.Name
	}
	used := map[string]bool{}
	for i := range c.Services {
		s := &c.Services[i]
		if s.IsTodo() {
			continue
		}
		if !g.chance(0.45) {
			// a `type` without a getter is legal: the type is then used by nothing in the generated code
			// (its package may be imported for nothing and has to be pruned)
			if s.Type == nil && s.Constructor != nil && g.chance(0.25) {
				s.Type = cfg.P(choose(g, "*", "") + g.Ref(g.anyPkg(), choose(g, "Obj", "Iface", "Val")))
			}
			continue
		}
		it := ref.NewInterp(c, fixt)
		it.Env = map[string]string{}
		it.New()
		it.PreEvaluate()
		it.StartOp()
		v, _ := it.Get(s.Name)
		if it.Unknown != "" {
			continue
		}
		name := choose(g, "Get", "Fetch", "Obtain", "X") + strings.ToUpper(string(rune('A'+i))) + choose(g, "", "Svc", "_1")
		if g.chance(0.08) {
			// a getter spelled like a local name the generated file gives to an import (i<hex>_<last path element>)
			name = fmt.Sprintf("i%x_%s", g.pick(4), choose(g, "pa", "pb", "fmt", "os", "lib", "container", "x_y_v2", "context"))
		}
		if used[name] {
			continue
		}
		used[name] = true
		s.Getter = cfg.P(name)
		switch g.pick(3) {
		case 0:
			s.MustGetter = cfg.P(true)
		case 1:
			s.MustGetter = cfg.P(false)
		}
		if s.Type != nil {
			continue // type-only or pre-typed service keeps its type
		}
		var t string
		if s.Value != nil {
			// `type` also types the value expression: it must be the expression's static type (or an interface it implements)
			r := it.Im.ParseValue(*s.Value)
			static := ""
			switch r.Sym {
			case "Global", "Box.Inner", "Obj{}":
				static = "Obj"
				if r.Ptr {
					static = "*Obj"
				}
			case "GlobalPtr", "Box.Ptr":
				static = "*Obj"
				if r.Deref {
					static = "Obj"
				}
			case "GlobalVal":
				static = "Val"
			}
			var cands []string
			switch static {
			case "*Obj":
				cands = []string{"*" + g.Ref(r.Pkg, "Obj"), g.Ref(g.anyPkg(), "Iface")}
			case "Obj":
				if g.O.ValueGetters {
					cands = []string{g.Ref(r.Pkg, "Obj")}
				}
			case "Val":
				if g.O.ValueGetters {
					cands = []string{g.Ref(r.Pkg, "Val")}
				}
			}
			cands = append(cands, "")
			t = cands[g.pick(len(cands))]
			if t != "" && !it.Assignable(v, t) {
				t = "" // the service ends up with another dynamic type (wither/decorator): leave the getter untyped
			}
			if t != "" {
				s.Type = cfg.P(t)
			}
			continue
		}
		switch o := v.(type) {
		case *ref.ObjM:
			t = choose(g, "*"+g.Ref(o.TPkg, "Obj"), g.Ref(g.anyPkg(), "Iface"), "")
		case ref.NilObjM:
			t = "*" + g.Ref(o.TPkg, "Obj")
		case ref.ObjM:
			if g.O.ValueGetters {
				t = choose(g, g.Ref(o.TPkg, "Obj"), "")
			}
		case *ref.WrapM:
			t = choose(g, g.Ref(g.anyPkg(), "Iface"), "")
		case ref.OtherM:
			if g.O.ValueGetters && strings.HasSuffix(o.T, ".Val") {
				// the package is the one the value was taken from
				if s.Value != nil {
					r := it.Im.ParseValue(*s.Value)
					t = g.Ref(r.Pkg, "Val")
				}
			}
		case nil:
			// failing or nil service: a pointer type of any package is fine
			t = choose(g, "*"+g.Ref(g.anyPkg(), "Obj"), "")
		}
		if g.chance(0.08) {
			// a declared type the object can certainly not be converted to: every accessor has to report it
			switch o := v.(type) {
			case *ref.ObjM:
				if p := g.anyPkg(); p != o.TPkg {
					t = "*" + g.Ref(p, "Obj")
				} else if g.O.ValueGetters {
					t = g.Ref(o.TPkg, "Obj")
				}
			case ref.ObjM:
				t = "*" + g.Ref(o.TPkg, "Obj")
			case *ref.WrapM:
				t = "*" + g.Ref(g.anyPkg(), "Obj")
			}
		}
		if t != "" {
			s.Type = cfg.P(t)
		}
	}
	// a service that is switched off with `todo: true` but keeps its definition keeps its getter line too - the one it had, or (after
	// a copy-and-paste) the one of a neighbour: a placeholder has no accessors, so nothing collides
	for i := range c.Services {
		s := &c.Services[i]
		if !s.IsTodo() || s.Constructor == nil && s.Value == nil && s.Type == nil {
			continue
		}
		for j := range c.Services {
			if o := &c.Services[j]; j != i && o.Getter != nil && !o.IsTodo() && g.chance(0.5) {
				s.Getter = cfg.P(*o.Getter)
				if o.Type != nil {
					s.Type = cfg.P(*o.Type)
				}
				break
			}
		}
	}
}

// PatternGen produces parameter patterns for an existing configuration (references only to
// parameters that already exist, calls only of registered functions).
type PatternGen struct {
	g      *G
	params []string
}

func NewPatternGen(r *rand.Rand, conf *cfg.Config) *PatternGen {
	g := &G{R: r, O: DefaultOpts(), C: conf, fnNames: map[string]string{"env": "env", "envInt": "envInt", "todo": "todo"}}
	im := ref.NewImports(conf)
	for _, kv := range conf.Meta.Functions {
		g.fnNames[kv.K] = im.ParseFunc(kv.V).Sym
	}
	p := &PatternGen{g: g}
	for _, kv := range conf.Params {
		p.params = append(p.params, kv.K)
	}
	return p
}

func (p *PatternGen) Pattern() string { return p.g.pattern(p.params) }
