// Package mon holds the per-property monitors and the shared verdict/evidence plumbing.
package mon

import (
	"encoding/json"
	"fmt"
	"math/rand"
	"os"
	"path/filepath"
	"regexp"
	"sort"
	"strings"
	"sync"
	"time"

	"verif/work"
)

type Finding struct {
	Property string `json:"property"`
	Key      string `json:"key"`
	Status   string `json:"status"` // open | fixed
	What     string `json:"what"`
	Commit   string `json:"commit,omitempty"`
}

type findingsFile struct {
	Findings []Finding `json:"findings"`
}

type Violation struct {
	Sig    string
	What   string
	Replay string
}

type Ctx struct {
	Home, Repo string
	Prop       string
	Tier       string
	Seed       int64
	Level      string
	W          *work.WS
	Rng        *rand.Rand

	mu           sync.Mutex
	start        time.Time
	findings     []Finding
	violations   []Violation
	known        map[string]string
	seenSig      map[string]bool
	inconclusive []string

	// evidence counters
	Evaluations int
	distinct    map[string]bool
	Rule        string
	Samples     []any
	Extra       map[string]any
	Assumptions []string
	Exhaustive  bool
}

func NewCtx(home, repo, prop, tier string, seed int64, level string) *Ctx {
	c := &Ctx{Home: home, Repo: repo, Prop: prop, Tier: tier, Seed: seed, Level: level,
		start: time.Now(), known: map[string]string{}, seenSig: map[string]bool{}, distinct: map[string]bool{},
		Extra: map[string]any{}, Rng: rand.New(rand.NewSource(seed))}
	if b, err := os.ReadFile(filepath.Join(home, "known-findings.json")); err == nil {
		var ff findingsFile
		if json.Unmarshal(b, &ff) == nil {
			c.findings = ff.Findings
		}
	}
	return c
}

func (c *Ctx) Thorough() bool { return c.Tier == "thorough" }

// Pick returns q for the quick tier and t for the thorough tier.
func (c *Ctx) Pick(q, t int) int {
	if c.Thorough() {
		return t
	}
	return q
}

// Eval counts one evaluated case; key identifies it for distinctness, nontrivial per the check's rule.
func (c *Ctx) Eval(key string, nontrivial bool) {
	c.mu.Lock()
	c.Evaluations++
	if nontrivial {
		c.distinct[key] = true
	}
	c.mu.Unlock()
}

func (c *Ctx) Sample(s any) {
	c.mu.Lock()
	if len(c.Samples) < 6 {
		c.Samples = append(c.Samples, s)
	}
	c.mu.Unlock()
}

func (c *Ctx) Add(key string, n int) {
	c.mu.Lock()
	v, _ := c.Extra[key].(int)
	c.Extra[key] = v + n
	c.mu.Unlock()
}

func (c *Ctx) Set(key string, v any) {
	c.mu.Lock()
	c.Extra[key] = v
	c.mu.Unlock()
}

func (c *Ctx) Get(key string) int {
	c.mu.Lock()
	defer c.mu.Unlock()
	v, _ := c.Extra[key].(int)
	return v
}

var reSan = regexp.MustCompile(`[^A-Za-z0-9._-]+`)

// Violate records a violation with signature sig (stable for the failing input class).
// files are written to the replay directory. Known open findings are reported as such.
func (c *Ctx) Violate(sig, what string, files map[string]string) {
	c.mu.Lock()
	defer c.mu.Unlock()
	full := c.Prop + ":" + sig
	if c.seenSig[full] {
		c.Add2("violation_repeats", 1)
		return
	}
	c.seenSig[full] = true
	for _, f := range c.findings {
		if f.Property == c.Prop && f.Key == full && f.Status == "open" {
			c.known[full] = f.What
			return
		}
	}
	base := filepath.Join(c.Home, "evidence")
	if d := os.Getenv("VERIF_EVIDENCE_DIR"); d != "" {
		base = d
	}
	dir := filepath.Join(base, "replay", c.Prop, reSan.ReplaceAllString(sig, "_"))
	if len(dir) > 200 {
		dir = dir[:200]
	}
	_ = os.MkdirAll(dir, 0o755)
	_ = os.WriteFile(filepath.Join(dir, "WHAT.txt"), []byte(fmt.Sprintf("property=%s\nsignature=%s\nseed=%d tier=%s\n\n%s\n", c.Prop, full, c.Seed, c.Tier, what)), 0o644)
	for n, b := range files {
		p := filepath.Join(dir, n)
		_ = os.MkdirAll(filepath.Dir(p), 0o755)
		_ = os.WriteFile(p, []byte(b), 0o644)
	}
	c.violations = append(c.violations, Violation{Sig: full, What: what, Replay: dir})
}

// Side records an observation that contradicts ANOTHER property than the one this check decides - e.g. a breach of the CLI
// contract seen by the side monitor that wraps every tool run, or a configuration of the documented language that is rejected.
// It is a verdict only in the checks of the owning properties; elsewhere the run is inconclusive on that point (the check's own
// oracles may be working from a report they cannot trust, or had nothing to observe): a check never raises an alarm for a
// property other than its own.
func (c *Ctx) Side(owners, sig, what string, files map[string]string) {
	for _, o := range strings.Split(owners, ",") {
		if o == c.Prop {
			c.Violate(sig, what, files)
			return
		}
	}
	c.mu.Lock()
	defer c.mu.Unlock()
	key := "side:" + owners + ":" + sig
	c.Add2("side_observations_of_other_properties", 1)
	if c.seenSig[key] {
		return
	}
	c.seenSig[key] = true
	c.inconclusive = append(c.inconclusive, fmt.Sprintf("an observation that belongs to property %s, not to %s (%s): %s", owners, c.Prop, sig, strings.ReplaceAll(firstLines(what, 3), "\n", " | ")))
}

// Add2 is Add without locking (caller holds c.mu).
func (c *Ctx) Add2(key string, n int) {
	v, _ := c.Extra[key].(int)
	c.Extra[key] = v + n
}

func (c *Ctx) Inconclusive(reason string) {
	c.mu.Lock()
	c.inconclusive = append(c.inconclusive, reason)
	c.mu.Unlock()
}

func (c *Ctx) NViolations() int {
	c.mu.Lock()
	defer c.mu.Unlock()
	return len(c.violations)
}

// Finish writes the evidence file, prints the verdict lines and returns the exit code.
func (c *Ctx) Finish() int {
	c.mu.Lock()
	defer c.mu.Unlock()
	dn := len(c.distinct)
	cov := map[string]any{
		"evaluations":         c.Evaluations,
		"distinct_nontrivial": dn,
		"rule":                c.Rule,
		"samples":             c.Samples,
		"exhaustive":          c.Exhaustive,
	}
	if c.Level == "other" {
		cov["explanation"] = c.Rule
	}
	for k, v := range c.Extra {
		cov[k] = v
	}
	if len(c.Samples) == 0 {
		cov["samples"] = []any{"(no case was evaluated)"}
	}
	kn := make([]string, 0, len(c.known))
	for k := range c.known {
		kn = append(kn, k)
	}
	sort.Strings(kn)
	cov["known_findings_seen"] = kn
	if len(c.inconclusive) > 0 {
		cov["inconclusive"] = c.inconclusive
	}
	ev := map[string]any{
		"property_id": c.Prop,
		"tier":        c.Tier,
		"seed":        c.Seed,
		"level":       c.Level,
		"coverage":    cov,
		"assumptions": c.Assumptions,
		"wall_s":      time.Since(c.start).Seconds(),
		"violations":  len(c.violations),
	}
	b, _ := json.MarshalIndent(ev, "", " ")
	evDir := filepath.Join(c.Home, "evidence")
	if d := os.Getenv("VERIF_EVIDENCE_DIR"); d != "" {
		evDir = d // used when monitors are validated against mutated trees, so that real evidence is not overwritten
	}
	_ = os.MkdirAll(evDir, 0o755)
	_ = os.WriteFile(filepath.Join(evDir, c.Prop+".json"), append(b, '\n'), 0o644)

	for _, k := range kn {
		fmt.Printf("KNOWN-FINDING: property=%s %s — %s\n", c.Prop, k, c.known[k])
	}
	for _, v := range c.violations {
		fmt.Printf("VIOLATION property=%s replay=%s\n", c.Prop, v.Replay)
		fmt.Printf("  signature: %s\n  %s\n", v.Sig, strings.ReplaceAll(firstLines(v.What, 12), "\n", "\n  "))
	}
	if len(c.violations) > 0 {
		return 1
	}
	if len(c.inconclusive) > 0 {
		for _, r := range c.inconclusive {
			fmt.Printf("INCONCLUSIVE property=%s reason=%s\n", c.Prop, r)
		}
		return 2
	}
	if c.Evaluations == 0 || dn < 2 {
		fmt.Printf("INCONCLUSIVE property=%s reason=observed too little (evaluations=%d distinct=%d)\n", c.Prop, c.Evaluations, dn)
		return 2
	}
	fmt.Printf("HELD property=%s tier=%s seed=%d evaluations=%d distinct_nontrivial=%d wall=%.1fs\n", c.Prop, c.Tier, c.Seed, c.Evaluations, dn, time.Since(c.start).Seconds())
	return 0
}

func firstLines(s string, n int) string {
	l := strings.Split(s, "\n")
	if len(l) > n {
		l = append(l[:n], fmt.Sprintf("… (%d more lines)", len(l)-n))
	}
	return strings.Join(l, "\n")
}

// Par runs fn(i) for i in [0,n) on workers goroutines.
func Par(n, workers int, fn func(i int)) {
	if workers < 1 {
		workers = 1
	}
	var wg sync.WaitGroup
	ch := make(chan int)
	for k := 0; k < workers; k++ {
		wg.Add(1)
		go func() {
			defer wg.Done()
			for i := range ch {
				fn(i)
			}
		}()
	}
	for i := 0; i < n; i++ {
		ch <- i
	}
	close(ch)
	wg.Wait()
}

type CheckFn func(c *Ctx) error

var Registry = map[string]struct {
	Level string
	Fn    CheckFn
}{}

func Register(id, level string, fn CheckFn) {
	Registry[id] = struct {
		Level string
		Fn    CheckFn
	}{level, fn}
}
