package mon

import (
	"fmt"
	"sort"
	"strings"

	"verif/cfg"
	"verif/ref"
)

// Features classifies a configuration along the dimensions of C01's quantifier; the evidence
// reports how many value pairs of different dimensions were seen together (pairwise coverage measured, not assumed).
func Features(c *cfg.Config, nFiles int, stub bool) map[string][]string {
	f := map[string]map[string]bool{}
	add := func(dim, val string) {
		if f[dim] == nil {
			f[dim] = map[string]bool{}
		}
		f[dim][val] = true
	}
	add("mode", map[bool]string{true: "stub", false: "normal"}[stub])
	add("files", fmt.Sprint(nFiles))
	add("default_must_getter", triS(c.Meta.DefaultMustGetter))
	add("meta_names", map[bool]string{true: "set", false: "default"}[c.Meta.ContainerType != nil || c.Meta.ContainerConstructor != nil])
	if c.Meta.Pkg == nil {
		add("pkg", "main")
	} else {
		add("pkg", "named")
	}
	for _, a := range c.Meta.Imports {
		switch {
		case a.K == "fmt" || a.K == "os" || a.K == "errors" || a.K == "context" || a.K == "reflect" || a.K == "strconv" || a.K == "github.com":
			add("alias", "equals-template-import")
		case len(a.K) <= 2:
			add("alias", "short-prefix")
		default:
			add("alias", "plain")
		}
	}
	if len(c.Meta.Imports) == 0 {
		add("alias", "none")
	}
	lit := func(v cfg.Val) {
		switch v.Kind {
		case "str":
			a := ref.Classify(v)
			switch a.Kind {
			case ref.ArgValue:
				add("argform", "!value")
			case ref.ArgService:
				add("argform", "@service")
			case ref.ArgTagged:
				add("argform", "!tagged")
			case ref.ArgContainer:
				add("argform", "$gontainer")
			default:
				ch, bad := ref.ParsePattern(v.S, func(string) bool { return true })
				if bad == "" {
					kinds := map[string]bool{}
					for _, x := range ch {
						kinds[x.Kind] = true
					}
					switch {
					case len(ch) > 1:
						add("pattern", "multi-chunk")
					case kinds["ref"]:
						add("pattern", "single-ref")
					case kinds["call"]:
						add("pattern", "single-call")
					case kinds["pct"]:
						add("pattern", "%%")
					default:
						add("pattern", "plain")
					}
				}
			}
		case "float":
			if v.F != v.F || v.F > 1e308 || v.F < -1e308 {
				add("literal", "non-finite-float")
			} else {
				add("literal", "float")
			}
		default:
			add("literal", v.Kind)
		}
	}
	for _, p := range c.Params {
		lit(p.V)
	}
	for _, s := range c.Services {
		if s.IsTodo() {
			add("creation", "todo")
			continue
		}
		switch {
		case s.Constructor != nil:
			add("creation", "constructor")
		case s.Value != nil:
			add("creation", "value")
			v := *s.Value
			switch {
			case strings.HasPrefix(v, "&") && strings.HasSuffix(v, "{}"):
				add("valueform", "&T{}")
			case strings.HasSuffix(v, "{}"):
				add("valueform", "T{}")
			case strings.HasPrefix(v, "&"):
				add("valueform", "&var")
			case strings.Count(v, ".") >= 2 && strings.Contains(v, `"`):
				add("valueform", "quoted.var.field")
			default:
				add("valueform", "var")
			}
		default:
			add("creation", "type-only")
		}
		if s.Type != nil {
			t := *s.Type
			switch {
			case strings.HasPrefix(t, "*"):
				add("getter_type", "pointer")
			case strings.HasSuffix(t, "Iface"):
				add("getter_type", "interface")
			default:
				add("getter_type", "value")
			}
			if strings.Contains(t, `"`) {
				add("typeform", "quoted-import")
			} else if strings.Contains(t, ".") {
				add("typeform", "unquoted-import")
			} else {
				add("typeform", "local")
			}
		}
		if s.Getter != nil {
			add("getter", "set")
			add("must_getter", triS(s.MustGetter))
		}
		if s.Scope != nil {
			add("scope", *s.Scope)
		} else {
			add("scope", "unset")
		}
		if len(s.Tags) > 0 {
			add("tags", "yes")
		}
		if len(s.Fields) > 0 {
			add("fields", "yes")
		}
		for _, cl := range s.Calls {
			if cl.Wither != nil && *cl.Wither {
				add("calls", "wither")
			} else {
				add("calls", "call")
			}
		}
		for _, a := range s.Args {
			lit(a)
		}
		for _, kv := range s.Fields {
			lit(kv.V)
		}
	}
	if len(c.Decorators) > 0 {
		add("decorators", "yes")
	} else {
		add("decorators", "no")
	}
	out := map[string][]string{}
	for d, vs := range f {
		for v := range vs {
			out[d] = append(out[d], v)
		}
		sort.Strings(out[d])
	}
	return out
}

func triS(b *bool) string {
	if b == nil {
		return "unset"
	}
	return fmt.Sprint(*b)
}

// PairCoverage accumulates feature maps and reports covered vs possible value pairs of distinct dimensions.
type PairCoverage struct {
	values map[string]map[string]bool
	pairs  map[string]bool
}

func NewPairCoverage() *PairCoverage {
	return &PairCoverage{values: map[string]map[string]bool{}, pairs: map[string]bool{}}
}

func (p *PairCoverage) Add(f map[string][]string) {
	var dims []string
	for d := range f {
		dims = append(dims, d)
	}
	sort.Strings(dims)
	for _, d := range dims {
		if p.values[d] == nil {
			p.values[d] = map[string]bool{}
		}
		for _, v := range f[d] {
			p.values[d][v] = true
		}
	}
	for i, a := range dims {
		for _, b := range dims[i+1:] {
			for _, va := range f[a] {
				for _, vb := range f[b] {
					p.pairs[a+"="+va+"|"+b+"="+vb] = true
				}
			}
		}
	}
}

func (p *PairCoverage) Report() map[string]any {
	var dims []string
	for d := range p.values {
		dims = append(dims, d)
	}
	sort.Strings(dims)
	possible := 0
	for i, a := range dims {
		for _, b := range dims[i+1:] {
			possible += len(p.values[a]) * len(p.values[b])
		}
	}
	vals := map[string][]string{}
	for _, d := range dims {
		for v := range p.values[d] {
			vals[d] = append(vals[d], v)
		}
		sort.Strings(vals[d])
	}
	return map[string]any{"dimensions": len(dims), "values_seen": vals, "pairs_covered": len(p.pairs), "pairs_possible_over_seen_values": possible}
}

// respellTagged writes the separator between `!tagged` and the tag name of every argument of the configuration as other white
// space the documented form `!tagged\s+<tag>` allows (line feed, CR LF, form feed, tab, several of them): the request stays the
// same request, whatever a resolver, validator or graph builder does with the text (round 13, S247).
func respellTagged(c *cfg.Config, salt int) {
	seps := []string{"\n", "\r\n", "\f", "\t", " \n ", "  ", "\n\n"}
	k := salt
	fix := func(vs []cfg.Val) {
		for i := range vs {
			if vs[i].Kind == "str" && strings.HasPrefix(vs[i].S, "!tagged ") {
				vs[i].S = "!tagged" + seps[k%len(seps)] + strings.TrimLeft(vs[i].S[len("!tagged "):], " ")
				k++
			}
		}
	}
	for i := range c.Services {
		s := &c.Services[i]
		fix(s.Args)
		for j := range s.Calls {
			fix(s.Calls[j].Args)
		}
		for j := range s.Fields {
			if v := &s.Fields[j].V; v.Kind == "str" && strings.HasPrefix(v.S, "!tagged ") {
				v.S = "!tagged" + seps[k%len(seps)] + strings.TrimLeft(v.S[len("!tagged "):], " ")
				k++
			}
		}
	}
	for i := range c.Decorators {
		fix(c.Decorators[i].Args)
	}
}
