package mon

import (
	"fmt"
	"math/rand"
	"os"
	"os/exec"
	"path/filepath"
	"sort"
	"strings"
	"time"

	"verif/cfg"
	"verif/gen"
	"verif/work"
)

func init() { Register("C08", "exploration", checkC08) }

// c08Valid builds a valid configuration with 6-8 entries in every mapping the tool ranges over.
func c08Valid(r *rand.Rand) *cfg.Config {
	c := &cfg.Config{Meta: cfg.Meta{Pkg: cfg.P("gen")}}
	aliases := []cfg.KS{{K: "a", V: "fixt/pa"}, {K: "ab", V: "fixt/pb"}, {K: "abc", V: "fixt/os"}, {K: "f", V: "fixt/fmt"}, {K: "fm", V: "fixt/deep/pa"}, {K: "o", V: "fixt/x-y.v2"}, {K: "g", V: "fixt/pa"}, {K: "pa", V: "fixt/pa"}}
	r.Shuffle(len(aliases), func(i, j int) { aliases[i], aliases[j] = aliases[j], aliases[i] })
	c.Meta.Imports = aliases[:6+r.Intn(3)]
	al := func() string { return c.Meta.Imports[r.Intn(len(c.Meta.Imports))].K }
	for i := 0; i < 6+r.Intn(3); i++ {
		c.Meta.Functions = append(c.Meta.Functions, cfg.KS{K: fmt.Sprintf("fn%d", i), V: al() + "." + []string{"Fn", "FnEcho", "FnInt"}[r.Intn(3)]})
	}
	for i := 0; i < 6+r.Intn(3); i++ {
		v := cfg.Int(int64(i))
		switch r.Intn(4) {
		case 0:
			v = cfg.Str(fmt.Sprintf("%%fn%d(%d)%%", r.Intn(6), i))
		case 1:
			if i > 0 {
				v = cfg.Str(fmt.Sprintf("x%%p%d%%", r.Intn(i)))
			}
		case 2:
			v = cfg.Str(fmt.Sprintf("%%fn%d(strings.ToUpper(\"x\"), yaml.Node{})%%", r.Intn(6))) // selectors the formatter cannot resolve
		}
		c.Params = append(c.Params, cfg.KV{K: fmt.Sprintf("p%d", i), V: v})
	}
	ns := 6 + r.Intn(3)
	for i := 0; i < ns; i++ {
		s := cfg.Service{Name: fmt.Sprintf("s%d", i), Constructor: cfg.P(al() + ".New")}
		if i > 0 {
			s.Args = append(s.Args, cfg.Str(fmt.Sprintf("@s%d", r.Intn(i))))
		}
		s.Args = append(s.Args, cfg.Str(fmt.Sprintf("%%p%d%%", r.Intn(6))))
		switch r.Intn(4) {
		case 0:
			s.Args = append(s.Args, cfg.Str(`!value ".".yaml.Marshal`))
		case 1:
			s.Args = append(s.Args, cfg.Str(`!value ".".cobra.Command`), cfg.Str(`!value ".".LocalBox.Inner`))
		}
		s.Fields = []cfg.KV{{K: "F1", V: cfg.Int(1)}, {K: "F2", V: cfg.Str("x")}, {K: "f3", V: cfg.Null()}}
		r.Shuffle(3, func(a, b int) { s.Fields[a], s.Fields[b] = s.Fields[b], s.Fields[a] })
		s.Tags = []cfg.Tag{{Name: "t"}, {Name: fmt.Sprintf("u%d", i%3), Prio: cfg.P(i)}}
		if r.Intn(2) == 0 {
			s.Getter = cfg.P(fmt.Sprintf("Get%c", 'A'+i))
			s.Type = cfg.P("*" + al() + ".Obj")
		}
		c.Services = append(c.Services, s)
	}
	for i := 0; i < 3; i++ {
		c.Decorators = append(c.Decorators, cfg.Decorator{Tag: "t", Decorator: al() + ".DecSame", Args: []cfg.Val{cfg.Int(int64(i))}})
	}
	// keys that differ only by letter case, in every mapping (a comparator that folds case would tie on them)
	c.Params = append(c.Params, cfg.KV{K: "P0", V: cfg.Str("upper")}, cfg.KV{K: "appName", V: cfg.Int(1)}, cfg.KV{K: "AppName", V: cfg.Int(2)}, cfg.KV{K: "APPNAME", V: cfg.Int(3)})
	c.Meta.Imports = append(c.Meta.Imports, cfg.KS{K: "PA", V: "fixt/pb"}, cfg.KS{K: "Pa", V: "fixt/os"}, cfg.KS{K: "pA", V: "fixt/fmt"})
	c.Meta.Functions = append(c.Meta.Functions, cfg.KS{K: "Fn0", V: "PA.Fn"}, cfg.KS{K: "FN0", V: "Pa.FnInt"})
	for _, n := range []string{"S0", "mailer", "Mailer", "MAILER"} {
		c.Services = append(c.Services, cfg.Service{Name: n, Constructor: cfg.P([]string{"PA", "Pa", "pA"}[r.Intn(3)] + ".New"),
			Args:   []cfg.Val{cfg.Str("%AppName%"), cfg.Str("%appName%")},
			Fields: []cfg.KV{{K: "F1", V: cfg.Int(1)}, {K: "f1", V: cfg.Int(2)}, {K: "Ff", V: cfg.Int(3)}, {K: "fF", V: cfg.Int(4)}, {K: "FF", V: cfg.Int(5)}, {K: "ff", V: cfg.Int(6)}}})
	}
	// keys with numeric suffixes of different lengths and keys that sort between them (db10 < db1_replica < db2 bytewise): a
	// comparator that mixes two orders is not transitive, and what a sort returns then depends on the order it was given
	for k, n := range []string{"db2", "db10", "db1x", "db1-replica", "db9", "db100", "db1.a", "db1_0", "worker1x", "worker2", "worker10", "w9", "w10", "w1a"} {
		c.Params = append(c.Params, cfg.KV{K: n, V: cfg.Int(int64(k))})
		sv := cfg.Service{Name: n, Constructor: cfg.P(al() + ".New"), Args: []cfg.Val{cfg.Str("%" + n + "%")}, Tags: []cfg.Tag{{Name: n}, {Name: "t"}}}
		c.Services = append(c.Services, sv)
		if k < 8 {
			c.Meta.Functions = append(c.Meta.Functions, cfg.KS{K: strings.NewReplacer("-", "", ".", "").Replace(n), V: al() + ".Fn"})
		}
	}
	c.Meta.Imports = append(c.Meta.Imports, cfg.KS{K: "lib2", V: "fixt/pa"}, cfg.KS{K: "lib10", V: "fixt/pb"}, cfg.KS{K: "lib1x", V: "fixt/os"})
	// packages whose FIRST use is inside one mapping (the fields of one service, one service's sibling in the services mapping):
	// the local names given to imports are numbered in order of first use, which therefore has to be a sorted order
	for k, svc := range []string{"AAfirstUse", "firstUse", "zzFirstUse"} {
		sv := cfg.Service{Name: svc, Constructor: cfg.P(fmt.Sprintf(`"first.test/ctor%d".New`, k))}
		for fi, f := range []string{"F1", "F2", "f3", "Fa", "fb", "FC"} {
			form := []string{`!value "first.test/s%d/f%d".Global`, `!value &"first.test/s%d/f%d".Obj{}`, `!value "first.test/s%d/f%d".Box.Inner`}[(k+fi)%3]
			sv.Fields = append(sv.Fields, cfg.KV{K: f, V: cfg.Str(fmt.Sprintf(form, k, fi))})
		}
		sv.Calls = []cfg.Call{{Method: "Set", Args: []cfg.Val{cfg.Str(fmt.Sprintf(`!value "first.test/call%d".Global`, k))}}}
		c.Services = append(c.Services, sv)
	}
	for fi := 0; fi < 6; fi++ {
		c.Meta.Functions = append(c.Meta.Functions, cfg.KS{K: fmt.Sprintf("firstUseFn%d", fi), V: fmt.Sprintf(`"first.test/fn%d".Fn`, fi)})
	}
	r.Shuffle(len(c.Services), func(i, j int) { c.Services[i], c.Services[j] = c.Services[j], c.Services[i] })
	r.Shuffle(len(c.Params), func(i, j int) { c.Params[i], c.Params[j] = c.Params[j], c.Params[i] })
	return c
}

// c08Invalid carries >=6 simultaneous defects of one or more classes.
func c08Invalid(r *rand.Rand, class int) *cfg.Config {
	c := c08Valid(r)
	switch class % 7 {
	case 0: // meta imports/functions validators
		for i := 0; i < 7; i++ {
			c.Meta.Imports = append(c.Meta.Imports, cfg.KS{K: fmt.Sprintf("bad alias %d", i), V: fmt.Sprintf("bad import %d", i)})
			c.Meta.Functions = append(c.Meta.Functions, cfg.KS{K: fmt.Sprintf("bad-fn-%d", i), V: fmt.Sprintf("bad go fn %d()", i)})
		}
	case 1: // services and params grammar
		for _, n := range []string{"bad name", "Bad name", "BAD name", "bad Name"} {
			c.Services = append(c.Services, cfg.Service{Name: n, Value: cfg.P("X")})
			c.Params = append(c.Params, cfg.KV{K: n + "..", V: cfg.Int(1)})
		}
		for i := 0; i < 7; i++ {
			c.Services = append(c.Services, cfg.Service{Name: fmt.Sprintf("bad svc %d", i), Getter: cfg.P("1x"), Constructor: cfg.P("New()")})
			c.Params = append(c.Params, cfg.KV{K: fmt.Sprintf("bad..p%d", i), V: cfg.Int(1)})
		}
	case 2: // missing references
		// one pattern naming several undefined parameters, some of them more than once
		c.Params = append(c.Params, cfg.KV{K: "manyMissing", V: cfg.Str("%m1%-%m2%-%m3%-%m4%-%m5%-%m6%-%m7%.%m1%.%m3%")})
		c.Services[0].Args = append(c.Services[0].Args, cfg.Str("%n1%%n2%%n3%%n4%%n5%%n6%%n2%%n1%"), cfg.Str("@x1"), cfg.Str("@x2"), cfg.Str("@x1"))
		for i := 0; i < 7; i++ {
			gen.Inject(r, c, "missing-param", i)
			gen.Inject(r, c, "missing-service", 10+i)
		}
	case 3: // cycles and scope conflicts
		for i := 0; i < 6; i++ {
			gen.Inject(r, c, "cycle-svc", i)
			gen.Inject(r, c, "cycle-param", 10+i)
			gen.Inject(r, c, "scope", 20+i)
		}
	case 4: // token errors
		for i := 0; i < 7; i++ {
			gen.Inject(r, c, "token", i)
		}
	case 6: // valid content; the defect is in the patterns (see the caller)
	default: // a bit of everything
		for i, k := range gen.DefectKinds {
			gen.Inject(r, c, k, i)
			gen.Inject(r, c, k, 10+i)
		}
	}
	return c
}

// permuteKeys renders the configuration with every mapping's keys in another order.
func permuteKeys(r *rand.Rand, c *cfg.Config) string {
	n := c.Clone()
	r.Shuffle(len(n.Params), func(i, j int) { n.Params[i], n.Params[j] = n.Params[j], n.Params[i] })
	r.Shuffle(len(n.Services), func(i, j int) { n.Services[i], n.Services[j] = n.Services[j], n.Services[i] })
	r.Shuffle(len(n.Meta.Imports), func(i, j int) { n.Meta.Imports[i], n.Meta.Imports[j] = n.Meta.Imports[j], n.Meta.Imports[i] })
	r.Shuffle(len(n.Meta.Functions), func(i, j int) { n.Meta.Functions[i], n.Meta.Functions[j] = n.Meta.Functions[j], n.Meta.Functions[i] })
	for k := range n.Services {
		f := n.Services[k].Fields
		r.Shuffle(len(f), func(i, j int) { f[i], f[j] = f[j], f[i] })
	}
	return n.YAML()
}

func checkC08(c *Ctx) error {
	cfgN, runs, perms := c.Pick(48, 420), c.Pick(16, 60), c.Pick(4, 8)
	c.Rule = fmt.Sprintf("%d configurations (half valid, half invalid with >=6 simultaneous defects per class; 6-8 entries in every mapping the tool ranges over: aliases incl. prefix-related names, functions, parameters, services, fields, files matched by several patterns) x %d fresh processes each, every run in its own working directory with relative paths, a perturbed environment and different previous content at the output path (none, longer, shorter), TMPDIR unset / missing / on another file system; every eighth valid configuration also with an output path that cannot be written (missing directory, path is a directory) (HOME/GOPATH/GOMODCACHE/GOFLAGS/LANG/TZ/TERM/NO_COLOR unset or garbage, unrelated APP_* variables, PATH with and without a go command, parent directory with and without .go files of the same package) — sha256 of the -o file and of stdout must be constant per configuration; plus %d key permutations of every mapping of each valid configuration — the -o file must not change. Builds stamped with version, commit and dates in several forms are run under different time zones and locales: file and report must not change. A canary program built with the same toolchain shows that map iteration order really varies between these processes. distinct = distinct configuration; non-trivial = every ranged mapping has >=6 entries", cfgN, runs, perms)
	c.Assumptions = []string{"the schedule explored is the runtime's per-range map randomisation: detection is probabilistic (miss probability per 6-entry map and 16 runs < 1e-9), silence on a correct tree is certain", "stdout is compared with relative -i/-o arguments, since the report echoes them"}
	w := c.W
	if _, err := NewLabOnlyMod(c); err != nil {
		return err
	}
	bins := []string{w.Bin}
	if c.Thorough() {
		alt := filepath.Join(w.Dir, "bin", "gontainer-go1.26.8")
		if err := w.BuildTool(alt, "", "go1.26.8", false); err == nil {
			bins = append(bins, alt)
			c.Set("second_toolchain", "go1.26.8")
		} else {
			c.Set("second_toolchain", "unavailable: "+firstLines(err.Error(), 2))
		}
	}
	// canary: does map order vary between fresh processes?
	canary := filepath.Join(w.Dir, "bin", "canary")
	if r := w.Go(filepath.Join(w.Mod, "canary"), false, 5*time.Minute, "build", "-o", canary, "."); r.Exit != 0 {
		return fmt.Errorf("canary build: %s", r.Stderr)
	}
	orders := map[string]bool{}
	for i := 0; i < 24; i++ {
		res := work.Run(canary, w.Dir, w.SaneEnv(), time.Minute, nil)
		orders[strings.TrimSpace(res.Stdout)] = true
	}
	c.Set("canary_distinct_map_orders_in_24_processes", len(orders))
	if len(orders) < 2 {
		c.Inconclusive("the canary saw a single map iteration order: the schedule is not being explored")
		return nil
	}
	realHome := os.Getenv("HOME")
	envFor := func(k int, dir string) []string {
		r := rand.New(rand.NewSource(int64(k)*7919 + c.Seed))
		env := []string{}
		// PATH with or without a go command
		if k%2 == 0 {
			env = append(env, "PATH="+w.EmptyBin)
		} else {
			env = append(env, "PATH=/usr/bin:/bin:/usr/local/bin")
		}
		switch k % 3 {
		case 0:
			env = append(env, "HOME="+realHome, "GOFLAGS=-mod=mod", "GOPROXY=off")
		case 1:
			env = append(env, "HOME="+filepath.Join(dir, "nohome"), "GOPATH="+filepath.Join(dir, "nogopath"), "GOMODCACHE="+filepath.Join(dir, "nomodcache"), "GOFLAGS=-mod=mod", "GOPROXY=off")
		default:
			env = append(env, "GOFLAGS=-garbage", "GOPATH=/nonexistent/:::")
		}
		if r.Intn(2) == 0 {
			env = append(env, "LANG="+[]string{"C", "pl_PL.UTF-8", "garbage"}[r.Intn(3)])
		}
		if r.Intn(2) == 0 {
			env = append(env, "TZ="+[]string{"UTC", "Asia/Tokyo", "garbage"}[r.Intn(3)])
		}
		if r.Intn(2) == 0 {
			env = append(env, "TERM="+[]string{"xterm-256color", "dumb", ""}[r.Intn(3)])
		}
		if r.Intn(2) == 0 {
			env = append(env, "NO_COLOR=1")
		}
		if r.Intn(2) == 0 {
			env = append(env, "CLICOLOR_FORCE=1", "FORCE_COLOR=1")
		}
		env = append(env, fmt.Sprintf("APP_%d=%d", r.Intn(100), r.Intn(100)), "VERIF_ENV_0=x", "GONTAINER_DEBUG=1")
		// neither are the number of processors Go may use, nor the variables `go generate` exports to the commands it runs
		switch k % 5 {
		case 0:
			env = append(env, "GOMAXPROCS=1")
		case 1:
			env = append(env, "GOMAXPROCS=3")
		case 2:
			env = append(env, "GOMAXPROCS=7", "GOPACKAGE=main", "GOFILE=gen.go", "GOLINE=3")
		case 3:
			env = append(env, "GOPACKAGE=otherpkg", "GOFILE=doc.go", "GOARCH=386", "GOOS=plan9")
		}
		// where temporary files would go is not an input either: unset, a directory that does not exist, another file system, a private one
		switch k % 4 {
		case 1:
			env = append(env, "TMPDIR="+filepath.Join(dir, "no-such-tmp"))
		case 2:
			if st, err := os.Stat("/dev/shm"); err == nil && st.IsDir() {
				env = append(env, "TMPDIR=/dev/shm")
			}
		case 3:
			t := filepath.Join(dir, "tmp")
			_ = os.MkdirAll(t, 0o755)
			env = append(env, "TMPDIR="+t)
		}
		return env
	}
	type group struct {
		conf    *cfg.Config
		valid   bool
		files   []cfg.File
		pats    []string
		outSha  map[string]int
		repSha  map[string]int
		sample  map[string]string
		outFault int // 0: writable output path; 1: its directory does not exist; 2: the path is a directory
	}
	groups := make([]*group, cfgN)
	for i := range groups {
		r := rand.New(rand.NewSource(c.Seed*15485863 + int64(i)))
		g := &group{outSha: map[string]int{}, repSha: map[string]int{}, sample: map[string]string{}}
		if i%2 == 0 {
			g.conf, g.valid = c08Valid(r), true
		} else {
			g.conf = c08Invalid(r, i/2)
		}
		if i%4 == 0 {
			g.conf.Meta.Pkg = nil // the documented default (main), whatever else lives in the output directory
		}
		// 6-7 files, some matched by two patterns when the group is invalid (duplicate-pattern errors); every eighth group is
		// spread over 41 files read through one wildcard
		nf := 6
		names := []string{"in/a.yaml", "in/b.yaml", "in/c.yaml", "in/d.yaml", "in/e.yaml", "in/f.yaml"}
		if i%8 == 2 {
			nf = 41
			names = nil
			for k := 0; k < nf; k++ {
				names = append(names, fmt.Sprintf("in/%c%02d.yaml", 'a'+k%6, k))
			}
		}
		parts := gen.SplitParts(r, g.conf, nf)
		for k := range parts {
			g.files = append(g.files, cfg.File{Name: names[k], Content: parts[k].YAML()})
		}
		g.pats = []string{"in/*.yaml"}
		if !g.valid && (i/2)%7 == 6 {
			// its own defect class: every file is matched by three patterns (Read config fails before anything else is reported)
			g.pats = []string{"in/*.yaml", "in/?.yaml", "i*/[a-f].yaml"}
		}
		groups[i] = g
	}
	// valid configurations whose output cannot be written: the failure report is a function of the inputs too
	for i := 0; i < cfgN; i += 8 {
		for fault := 1; fault <= 2; fault++ {
			src := groups[i]
			groups = append(groups, &group{conf: src.conf, valid: false, files: src.files, pats: src.pats, outFault: fault,
				outSha: map[string]int{}, repSha: map[string]int{}, sample: map[string]string{}})
		}
	}
	type job struct{ g, k int }
	var jobs []job
	for gi := range groups {
		for k := 0; k < runs; k++ {
			jobs = append(jobs, job{gi, k})
		}
	}
	type obs struct{ out, rep, stdout string; exit int }
	results := make([]obs, len(jobs))
	Par(len(jobs), 16, func(ji int) {
		j := jobs[ji]
		g := groups[j.g]
		// cwd: a fresh directory whose parent does / does not hold .go files of the generated package
		parent := w.TempDir("c08p")
		if j.k%2 == 1 {
			_ = work.WriteFile(filepath.Join(parent, "other.go"), []byte("package gen\n\nimport \"gopkg.in/yaml.v3\"\n\nvar yaml = struct{ Marshal func() }{}\nvar _ = yaml3.Node{}\n"))
			_ = work.WriteFile(filepath.Join(parent, "go.mod"), []byte("module parentmod\n\ngo 1.21\n"))
		}
		dir := filepath.Join(parent, fmt.Sprintf("cwd%d", j.k))
		// every seventh run gets its last file (where there are at least two) through a named pipe fed in pieces: how the bytes of an
		// input arrive is no input
		var pipe *work.Fifo
		for fi, f := range g.files {
			named := 0
			for _, p := range g.pats {
				if p == f.Name {
					named++
				} else if strings.ContainsAny(p, "*?[") {
					named += 2 // a wildcard may match the file once more: a pipe can be read only once
				}
			}
			if len(g.pats) == 1 {
				named = 1 // one pattern: every file it matches is read once
			}
			if j.k%7 == 5 && fi == len(g.files)-1 && fi > 0 && named == 1 {
				_ = os.MkdirAll(filepath.Dir(filepath.Join(dir, f.Name)), 0o755)
				if p, err := work.FeedFifo(filepath.Join(dir, f.Name), []byte(f.Content)); err == nil {
					pipe = p
					continue
				}
			}
			_ = work.WriteFile(filepath.Join(dir, f.Name), []byte(f.Content))
		}
		args := []string{"build"}
		for _, p := range g.pats {
			args = append(args, "-i", p)
		}
		switch g.outFault {
		case 1:
			args = append(args, "-o", "no-such-dir/out.go")
		case 2:
			_ = os.MkdirAll(filepath.Join(dir, "out.go"), 0o755)
			args = append(args, "-o", "out.go")
		default:
			args = append(args, "-o", "out.go")
		}
		// what is already at the output path is not an input either: nothing, a much longer file, a shorter one, a read-only one
		prev := j.k % 5
		if g.outFault != 0 {
			prev = 0
		}
		switch prev {
		case 1:
			_ = work.WriteFile(filepath.Join(dir, "out.go"), []byte("package old\n"+strings.Repeat("// previously generated, much longer than anything this run writes\n", 4000)))
		case 2:
			_ = work.WriteFile(filepath.Join(dir, "out.go"), []byte("package old\n"))
		case 3:
			_ = work.WriteFile(filepath.Join(dir, "out.go"), []byte("package old\n"+strings.Repeat("var _ = 0\n", 3000)))
			_ = os.Chmod(filepath.Join(dir, "out.go"), 0o600)
		}
		// other Go files next to the output (the package the container is generated into, a build-ignored helper of another
		// package, a test file) are not an input
		switch j.k % 4 {
		case 1:
			_ = work.WriteFile(filepath.Join(dir, "store.go"), []byte("package store\n\nvar X = 1\n"))
		case 2:
			_ = work.WriteFile(filepath.Join(dir, "store.go"), []byte("package store\n"))
			_ = work.WriteFile(filepath.Join(dir, "zz_gen.go"), []byte("//go:build ignore\n\npackage main\n\nfunc main() {}\n"))
			_ = work.WriteFile(filepath.Join(dir, "store_test.go"), []byte("package store_test\n"))
		case 3:
			_ = work.WriteFile(filepath.Join(dir, "aaa.go"), []byte("package aaa\n"))
			_ = work.WriteFile(filepath.Join(dir, "zzz.go"), []byte("package zzz\n"))
		}
		bin := bins[j.k%len(bins)]
		res := work.Run(bin, dir, envFor(j.k, dir), 120*time.Second, nil, args...)
		if pipe != nil {
			if op, all := pipe.Stop(); op && all {
				c.Add("runs_with_an_input_read_from_a_pipe", 1)
			} else {
				c.Add("runs_with_a_pipe_the_tool_did_not_read_completely", 1)
			}
		}
		o := obs{exit: res.Exit, stdout: res.Stdout}
		if b, err := os.ReadFile(filepath.Join(dir, "out.go")); err == nil && res.Exit == 0 {
			// a failing run generates nothing (what it leaves at the path is C10's subject)
			o.out = string(b)
		}
		o.rep = res.Stdout + "\n--stderr--\n" + res.Stderr + fmt.Sprintf("\n--exit %d", res.Exit)
		results[ji] = o
	})
	for ji, j := range jobs {
		g := groups[j.g]
		o := results[ji]
		// binaries of different toolchains embed different version lines: normalise that line only
		outKey := work.Sha([]byte(normGen([]byte(o.out))))
		repKey := work.Sha([]byte(o.rep))
		g.outSha[outKey]++
		g.repSha[repKey]++
		if _, ok := g.sample["out:"+outKey]; !ok {
			g.sample["out:"+outKey] = o.out
		}
		if _, ok := g.sample["rep:"+repKey]; !ok {
			g.sample["rep:"+repKey] = o.rep
		}
	}
	for gi, g := range groups {
		files := map[string]string{}
		for _, f := range g.files {
			files["input/"+f.Name] = f.Content
		}
		files["patterns.txt"] = strings.Join(g.pats, "\n")
		mapsOK := len(g.conf.Meta.Imports) >= 6 && len(g.conf.Meta.Functions) >= 6 && len(g.conf.Params) >= 6 && len(g.conf.Services) >= 6
		c.Eval(filesKeyFiles(g.files)+strings.Join(g.pats, ","), mapsOK)
		c.Add("process_runs", runs)
		if len(g.outSha) > 1 {
			var vs []string
			for k := range g.outSha {
				vs = append(vs, k)
			}
			sort.Strings(vs)
			for n, k := range vs {
				files[fmt.Sprintf("output-variant-%d.go", n)] = g.sample["out:"+k]
			}
			c.Violate("output-not-deterministic", fmt.Sprintf("group %d: %d distinct generated files over %d runs (counts %v)\n%s", gi, len(g.outSha), runs, counts(g.outSha), firstDiff(g.sample["out:"+vs[0]], g.sample["out:"+vs[1]])), files)
		}
		if len(g.repSha) > 1 {
			var vs []string
			for k := range g.repSha {
				vs = append(vs, k)
			}
			sort.Strings(vs)
			for n, k := range vs {
				if n < 4 {
					files[fmt.Sprintf("report-variant-%d.txt", n)] = g.sample["rep:"+k]
				}
			}
			kind := "valid"
			if !g.valid {
				kind = "invalid"
			}
			c.Violate("report-not-deterministic:"+kind, fmt.Sprintf("group %d (%s): %d distinct reports over %d runs (counts %v)\n%s", gi, kind, len(g.repSha), runs, counts(g.repSha), firstDiff(g.sample["rep:"+vs[0]], g.sample["rep:"+vs[1]])), files)
		}
		if gi < 2 {
			c.Sample(map[string]any{"valid": g.valid, "patterns": g.pats, "first_file": g.files[0].Content, "distinct_outputs": len(g.outSha), "distinct_reports": len(g.repSha), "runs": runs})
		}
	}
	// stamped builds: the build information is an input (it is printed into the file), the time zone and locale of the machine
	// that RUNS the tool are not - whatever form the stamped date has
	{
		stamps := []string{
			"-X main.version=1.2.3 -X main.date=2026-03-14T09:26:53 -X main.commit=0123456789abcdef0123456789abcdef01234567 -X main.isGitDirty=true -X main.builtBy=make4.3",
			"-X main.version=v0.9.1 -X main.date=2026-03-14T09:26:53Z -X main.commit=0123456789abcdef0123456789abcdef01234567 -X main.isGitDirty=false -X main.builtBy=goreleaser",
			"-X main.version=dev-main -X main.date=2026-03-14T23:59:59+02:00",
			"-X main.date=unknown",
		}
		if !c.Thorough() {
			stamps = stamps[:2]
		}
		zones := [][]string{{"TZ=UTC"}, {"TZ=Asia/Tokyo"}, {"TZ=America/Los_Angeles", "LANG=en_US.UTF-8"}, {"TZ=Pacific/Kiritimati", "LC_ALL=pl_PL.UTF-8"}, {"TZ=garbage"}, {}, {"TZ=", "LANG=C"}, {"TZ=:/etc/localtime"}}
		for si, st := range stamps {
			sb := filepath.Join(w.Dir, "bin", fmt.Sprintf("gontainer-stamped%d", si))
			if err := w.BuildTool(sb, st, "", false); err != nil {
				return fmt.Errorf("stamped build: %v", err)
			}
			g := groups[0]
			var first string
			for zi, z := range zones {
				dir := w.TempDir("c08z")
				for _, f := range g.files {
					_ = work.WriteFile(filepath.Join(dir, f.Name), []byte(f.Content))
				}
				args := []string{"build"}
				for _, p := range g.pats {
					args = append(args, "-i", p)
				}
				args = append(args, "-o", "out.go")
				env := append([]string{"PATH=" + w.EmptyBin, "HOME=" + dir}, z...)
				earlier := ""
				if zi%2 == 1 {
					// the output path already holds what ANOTHER build of the tool generated for the same configuration a moment ago
					// (an upgrade of the tool between two runs of `go generate`): no input of this run
					other := w.Bin
					if zi%4 == 3 && si > 0 {
						other = filepath.Join(w.Dir, "bin", fmt.Sprintf("gontainer-stamped%d", si-1))
					}
					if r0 := work.Run(other, dir, env, 120*time.Second, nil, args...); r0.Exit == 0 {
						c.Add("stamped_build_runs_over_the_output_of_another_build", 1)
						earlier = " over the output of another build of the tool for the same configuration"
					}
				}
				res := work.Run(sb, dir, env, 120*time.Second, nil, args...)
				b, _ := os.ReadFile(filepath.Join(dir, "out.go"))
				obs := res.Stdout + "\n--exit " + fmt.Sprint(res.Exit) + "\n--file--\n" + string(b)
				c.Add("stamped_build_runs", 1)
				if zi == 0 {
					first = obs
					if res.Exit != 0 {
						c.Violate("stamped-build-rejects-valid-config", "a stamped build rejects a valid configuration:\n"+res.Stdout, map[string]string{"ldflags.txt": st})
						break
					}
					continue
				}
				if obs != first {
					sig := "output-depends-on-time-zone-or-locale"
					if earlier != "" {
						sig = "output-depends-on-environment-or-earlier-output"
					}
					c.Violate(sig, fmt.Sprintf("build stamped %q: environment %v%s gives another report/file than %v on a fresh path\n%s", st, z, earlier, zones[0], firstDiff(first, obs)), map[string]string{"ldflags.txt": st})
					break
				}
			}
		}
	}
	// absolute arguments, different working directories: the same argv must give the same report and file whatever the cwd
	// (duplicate-pattern diagnostics name files: they must not be rendered relative to the cwd)
	Par(len(groups), 16, func(gi int) {
		g := groups[gi]
		if g.outFault != 0 {
			return
		}
		base := w.TempDir("c08a")
		for _, f := range g.files {
			_ = work.WriteFile(filepath.Join(base, f.Name), []byte(f.Content))
		}
		args := []string{"build"}
		for _, p := range g.pats {
			args = append(args, "-i", filepath.Join(base, p))
		}
		if gi%2 == 1 {
			args = append(args, "-i", filepath.Join(base, "in", "a.yaml")) // a file matched by two absolute patterns
		}
		out := filepath.Join(base, "out.go")
		args = append(args, "-o", out)
		cwds := []string{base, filepath.Join(base, "in"), w.Dir, "/", filepath.Join(w.TempDir("c08c"), "x", "y")}
		var first string
		for k, cwd := range cwds {
			_ = os.MkdirAll(cwd, 0o755)
			_ = os.Remove(out)
			res := work.Run(w.Bin, cwd, w.SaneEnv(), 120*time.Second, nil, args...)
			b, _ := os.ReadFile(out)
			obs := res.Stdout + "\n--stderr--\n" + res.Stderr + fmt.Sprintf("\n--exit %d\n--file--\n", res.Exit) + string(b)
			c.Add("absolute_argument_runs", 1)
			if k == 0 {
				first = obs
				continue
			}
			if obs != first {
				c.Violate("report-depends-on-working-directory", fmt.Sprintf("group %d: same absolute arguments, cwd %q vs %q give different report/output\n%s", gi, cwds[0], cwd, firstDiff(first, obs)), map[string]string{"args.txt": strings.Join(args, " ")})
				break
			}
		}
	})
	// key permutations
	var pjobs []int
	for gi, g := range groups {
		if g.valid {
			pjobs = append(pjobs, gi)
		}
	}
	Par(len(pjobs), 16, func(pi int) {
		gi := pjobs[pi]
		g := groups[gi]
		r := rand.New(rand.NewSource(c.Seed + int64(gi)))
		var base string
		for p := 0; p <= perms; p++ {
			dir := w.TempDir("c08k")
			yaml := g.conf.YAML()
			if p > 0 {
				yaml = permuteKeys(r, g.conf)
			}
			_ = work.WriteFile(filepath.Join(dir, "in.yaml"), []byte(yaml))
			res := work.Run(w.Bin, dir, w.SaneEnv(), 120*time.Second, nil, "build", "-i", "in.yaml", "-o", "out.go")
			b, _ := os.ReadFile(filepath.Join(dir, "out.go"))
			if res.Exit != 0 {
				c.Violate("valid-config-rejected:"+sigWords(res.Stdout[max(0, len(res.Stdout)-200):]), "a valid configuration of the determinism workload was rejected:\n"+res.Stdout, map[string]string{"input/in.yaml": yaml})
				return
			}
			if p == 0 {
				base = string(b)
				continue
			}
			c.Add("key_permutations_compared", 1)
			if string(b) != base {
				c.Violate("key-order-changes-output", fmt.Sprintf("group %d: reordering mapping keys changed the generated file\n%s", gi, firstDiff(base, string(b))), map[string]string{"input/permuted.yaml": yaml, "input/original.yaml": g.conf.YAML()})
			}
		}
	})
	_ = exec.Command
	return nil
}

func counts(m map[string]int) []int {
	var out []int
	for _, v := range m {
		out = append(out, v)
	}
	sort.Sort(sort.Reverse(sort.IntSlice(out)))
	return out
}

func filesKeyFiles(fs []cfg.File) string {
	var sb strings.Builder
	for _, f := range fs {
		sb.WriteString(f.Name + "\n" + f.Content + "\n")
	}
	return sb.String()
}

func max(a, b int) int {
	if a > b {
		return a
	}
	return b
}
