#!/bin/bash
# usage: selftest/run.sh <patch.diff> <property>...   — applies a patch to /repo, runs the quick checks, undoes it.
# Prints one line per property: CAUGHT / MISSED / INCONCLUSIVE.
set -u
patch=$(readlink -f "$1"); shift
cd /repo || exit 2
if [ -n "$(git status --porcelain)" ]; then echo "/repo is dirty"; exit 2; fi
git apply "$patch" || { echo "patch does not apply: $patch"; exit 2; }
trap 'cd /repo && git checkout -- . && git clean -fdq' EXIT
for p in "$@"; do
  out=$(cd /verif && VERIF_EVIDENCE_DIR=/tmp/selftest-evidence ./check.sh "$p" quick 2>&1); rc=$?
  case $rc in
    1) echo "CAUGHT  $p $(basename "$patch"): $(echo "$out" | grep -m1 'signature:' )";;
    0) echo "MISSED  $p $(basename "$patch")";;
    *) echo "INCONCL $p $(basename "$patch"): $(echo "$out" | tail -1)";;
  esac
done
