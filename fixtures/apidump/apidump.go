// Package apidump renders the exported API of a generated container type by reflection.
// It has no build constraint: it is used by the normal probe and by the stub probe.
package apidump

import (
	"reflect"
	"sort"
	"strings"
)

type API struct {
	Type    string   `json:"type"`
	PkgPath string   `json:"pkgpath"`
	PkgName string   `json:"pkgname"`
	Methods []string `json:"methods"` // exported methods of *T: "Name func(sig)"
	Fields  []string `json:"fields"`  // fields of T
}

func Sig(ft reflect.Type, skip int) string {
	var ins, outs []string
	for i := skip; i < ft.NumIn(); i++ {
		if ft.IsVariadic() && i == ft.NumIn()-1 {
			ins = append(ins, "..."+ft.In(i).Elem().String())
		} else {
			ins = append(ins, ft.In(i).String())
		}
	}
	for i := 0; i < ft.NumOut(); i++ {
		outs = append(outs, ft.Out(i).String())
	}
	s := "func(" + strings.Join(ins, ", ") + ")"
	switch len(outs) {
	case 0:
	case 1:
		s += " " + outs[0]
	default:
		s += " (" + strings.Join(outs, ", ") + ")"
	}
	return s
}

func Methods(t reflect.Type) []string {
	var ms []string
	for i := 0; i < t.NumMethod(); i++ {
		m := t.Method(i)
		ms = append(ms, m.Name+" "+Sig(m.Type, 1))
	}
	sort.Strings(ms)
	return ms
}

// Of describes the pointer-to-struct type t.
func Of(t reflect.Type) *API {
	a := &API{Type: t.String(), Methods: Methods(t)}
	if t.Kind() == reflect.Ptr {
		e := t.Elem()
		a.PkgPath = e.PkgPath()
		if i := strings.Index(t.String(), "."); i > 0 {
			a.PkgName = strings.TrimLeft(t.String()[:i], "*")
		}
		if e.Kind() == reflect.Struct {
			for i := 0; i < e.NumField(); i++ {
				a.Fields = append(a.Fields, e.Field(i).Name+" "+e.Field(i).Type.String())
			}
		}
	}
	return a
}
