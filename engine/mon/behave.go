package mon

import (
	"fmt"
	"math/rand"
	"sort"
	"strings"

	"verif/cfg"
	"verif/cli"
	"verif/gen"
	"verif/probe"
	"verif/ref"
	"verif/ysugar"
)

// StdOps builds the probe history for a configuration: construct, fetch every service
// (twice for some, in and across contexts), call getters, fetch tags and parameters.
func StdOps(conf *cfg.Config, r *rand.Rand, rich bool) []probe.Op {
	var ops []probe.Op
	// environment for env()/envInt(): some set, some unset, one non-numeric
	for i := 0; i < 3; i++ {
		switch r.Intn(3) {
		case 0:
			ops = append(ops, probe.Op{Op: "setenv", Name: fmt.Sprintf("VERIF_ENV_%d", i), Val: fmt.Sprintf("env value %d", i)})
		default:
			ops = append(ops, probe.Op{Op: "unsetenv", Name: fmt.Sprintf("VERIF_ENV_%d", i)})
		}
		switch r.Intn(4) {
		case 0:
			ops = append(ops, probe.Op{Op: "setenv", Name: fmt.Sprintf("VERIF_ENVI_%d", i), Val: fmt.Sprint(r.Intn(70000))})
		case 1:
			// hostile numerals: envInt is documented as strconv.Atoi (decimal, optional sign, nothing else)
			hostile := []string{"12x", "010", "0080", "-012", "+5", "0x10", "0b11", "0o17", "1_000", " 7", "7 ", "", "1e3", "-0", "99999999999999999999", "９", "0"}
			ops = append(ops, probe.Op{Op: "setenv", Name: fmt.Sprintf("VERIF_ENVI_%d", i), Val: hostile[r.Intn(len(hostile))]})
		default:
			ops = append(ops, probe.Op{Op: "unsetenv", Name: fmt.Sprintf("VERIF_ENVI_%d", i)})
		}
	}
	ops = append(ops, probe.Op{Op: "new"}, probe.Op{Op: "counts"}, probe.Op{Op: "circular"})
	names := make([]string, 0, len(conf.Services))
	for _, s := range conf.Services {
		names = append(names, s.Name)
	}
	sort.Strings(names)
	r.Shuffle(len(names), func(i, j int) { names[i], names[j] = names[j], names[i] })
	for _, n := range names {
		s := conf.Service(n)
		ops = append(ops, probe.Op{Op: "get", Name: n})
		if rich || r.Intn(2) == 0 {
			ops = append(ops, probe.Op{Op: "get", Name: n})
		}
		if s.Getter != nil && !s.IsTodo() && (*s.Getter)[0] >= 'A' && (*s.Getter)[0] <= 'Z' {
			// (a getter that starts with a lower-case letter is legal but not callable from the probe's package)
			ops = append(ops, probe.Op{Op: "getter", Name: *s.Getter})
			if rich || r.Intn(2) == 0 {
				ops = append(ops, probe.Op{Op: "getterctx", Name: *s.Getter + "InContext", Ctx: 1})
				ops = append(ops, probe.Op{Op: "getter", Name: "Must" + *s.Getter})
				ops = append(ops, probe.Op{Op: "getterctx", Name: "Must" + *s.Getter + "InContext", Ctx: 2})
			}
		}
		if rich || r.Intn(3) == 0 {
			ops = append(ops, probe.Op{Op: "getctx", Name: n, Ctx: 1}, probe.Op{Op: "getctx", Name: n, Ctx: 1}, probe.Op{Op: "getctx", Name: n, Ctx: 2})
		}
	}
	tags := map[string]bool{}
	for _, s := range conf.Services {
		for _, t := range s.Tags {
			tags[t.Name] = true
		}
	}
	for _, d := range conf.Decorators {
		if d.Tag != "*" {
			tags[d.Tag] = true
		}
	}
	var ts []string
	for t := range tags {
		ts = append(ts, t)
	}
	sort.Strings(ts)
	for _, t := range ts {
		if len(names) > 0 {
			ops = append(ops, probe.Op{Op: "istagged", Name: names[r.Intn(len(names))], Val: t})
		}
		ops = append(ops, probe.Op{Op: "tagged", Name: t})
		if rich {
			ops = append(ops, probe.Op{Op: "taggedctx", Name: t, Ctx: 1})
		}
	}
	for _, p := range conf.Params {
		ops = append(ops, probe.Op{Op: "param", Name: p.K})
	}
	ops = append(ops, probe.Op{Op: "circular"}, probe.Op{Op: "counts"})
	return ops
}

func envOf(ops []probe.Op) map[string]string { return map[string]string{} }

type behaveStats struct {
	generated, accepted, compiled, probed, opsJudged, opsTotal int
}

// runUnits pushes units through generate → compile → probe.
func runUnits(c *Ctx, lab *probe.Lab, units []*probe.Unit, race bool) error {
	lab.Generate(units, 16)
	for _, u := range units {
		for _, b := range u.Run.Contract() {
			c.Side("C10,C12", "cli-contract:"+sigWords(b), fmt.Sprintf("unit %s: %s\nargs: %v\nstdout:\n%s\nstderr:\n%s", u.ID, b, u.Run.Args, u.Run.Res.Stdout, u.Run.Res.Stderr), unitFiles(u))
		}
	}
	if err := lab.Compile(units); err != nil {
		return err
	}
	// every fifth unit once more at the language version the pinned runtime declares for itself
	if lang := lab.RuntimeLang(); lang != "" {
		var old []*probe.Unit
		for i, u := range units {
			if i%5 == 0 {
				old = append(old, u)
			}
		}
		if err := lab.CompileAtLang(old, lang); err != nil {
			return err
		}
		for _, u := range old {
			if u.LangTried {
				c.Add("units_compiled_again_at_"+lang, 1)
			}
			if u.LangErr != "" {
				files := unitFiles(u)
				files["compile-errors-"+lang+".txt"] = u.LangErr
				c.Violate("does-not-compile-at-the-language-version-of-the-runtime:"+errClass(u.LangErr), fmt.Sprintf("unit %s: the generated code compiles in this module but not with -lang=%s, the language version the pinned gontainer-helpers module declares in its go.mod (a consumer module need not declare more than the runtime it uses):\n%s", u.ID, lang, firstLines(u.LangErr, 8)), files)
			}
		}
	}
	return lab.RunProbes(units, 150, race)
}

func sigWords(s string) string {
	w := strings.Fields(s)
	if len(w) > 6 {
		w = w[:6]
	}
	return strings.Join(w, "-")
}

func unitFiles(u *probe.Unit) map[string]string {
	m := map[string]string{}
	for _, f := range u.Files {
		m["input/"+f.Name] = f.Content
	}
	m["args.txt"] = strings.Join(u.Run.Args, " ")
	m["stdout.txt"] = u.Run.Res.Stdout
	if u.Source != "" {
		m["generated.go"] = u.Source
	}
	if u.CompileErr != "" {
		m["compile-errors.txt"] = u.CompileErr
	}
	return m
}

// rejectReason extracts the failing step of a rejected unit for diagnostics.
func rejectReason(u *probe.Unit) string {
	if t := u.Run.Rep.FailingTop(); t != nil {
		return t.Name + ": " + strings.Join(u.Run.Rep.List, " | ")
	}
	return "exit " + fmt.Sprint(u.Run.Res.Exit)
}

// behaviourCheck is the shared body of C02/C04/C05(run-time half)/C15: generated configurations are run
// through the real tool, compiled, executed, and compared with the reference container.
func behaviourCheck(c *Ctx, n int, mk func(r *rand.Rand, i int) (*cfg.Config, []probe.Op), nontrivial func(conf *cfg.Config) bool, skipTainted bool) error {
	lab, err := probe.NewLab(c.W)
	if err != nil {
		return err
	}
	var units []*probe.Unit
	for i := 0; i < n; i++ {
		r := rand.New(rand.NewSource(c.Seed*1000003 + int64(i)))
		conf, ops := mk(r, i)
		u := &probe.Unit{ID: idOf(i), Cfg: conf, Files: []probe.File{{Name: "gontainer.yaml", Content: conf.YAML()}}, Ops: ops}
		if i%2 == 1 {
			// the same configuration written as several files (2, 4, or 4 with single-section files): what the container does
			// is a property of the merged configuration
			mode := 1 + (i/2)%3
			if len(conf.Services) >= 9 {
				mode = 4 + (i/2)%2 // 7 or 12 files
			}
			u.Files = gen.Split(rand.New(rand.NewSource(c.Seed*31337+int64(i))), conf, mode)
			if i%8 == 7 {
				// four files found by one wildcard, with decoys: the order in which they are merged decides
				u.Files, u.Patterns = gen.GlobLayout(rand.New(rand.NewSource(c.Seed*31337+int64(i))), conf)
			}
		}
		units = append(units, u)
	}
	return behaviourUnits(c, lab, units, nontrivial, skipTainted)
}

func idOf(i int) string { return fmt.Sprintf("c%05d", i) }

func hasTaggedArg(conf *cfg.Config) bool {
	for _, r := range ref.References(conf) {
		if r.Kind == "tag" {
			return true
		}
	}
	return false
}

// behaviourUnits runs prepared units and judges them against the reference container.
func behaviourUnits(c *Ctx, lab *probe.Lab, units []*probe.Unit, nontrivial func(conf *cfg.Config) bool, skipTainted bool) error {
	sugarUnits(c, units)
	priorUnits(c, units)
	pipedUnits(c, units)
	if err := runUnits(c, lab, units, false); err != nil {
		return err
	}
	for _, u := range units {
		for _, ok := range u.PipeSeen {
			if ok {
				c.Add("input_pipes_read_completely", 1)
			} else {
				c.Add("input_pipes_not_read_completely", 1)
			}
		}
	}
	for _, u := range units {
		c.Add("configs_generated", 1)
		if !u.Accepted {
			c.Add("configs_rejected_by_tool", 1)
			// the generator only emits configurations the documentation accepts
			rejected(c, rejectReason(u), fmt.Sprintf("unit %s: a configuration inside the documented language was rejected: %s", u.ID, rejectReason(u)), unitFiles(u))
			continue
		}
		if !u.Compiled {
			c.Add("configs_not_compiling", 1)
			c.Violate("does-not-compile:"+errClass(u.CompileErr), fmt.Sprintf("unit %s: the generated code of an accepted configuration does not compile, so the container exhibits none of the declared behaviour:\n%s", u.ID, firstLines(u.CompileErr, 8)), unitFiles(u))
			continue
		}
		if u.ProbeErr != "" && len(u.Results) == 0 {
			c.Add("probe_failures", 1)
			c.Violate("probe:"+sigWords(u.ProbeErr), fmt.Sprintf("unit %s: %s", u.ID, u.ProbeErr), unitFiles(u))
			continue
		}
		exp := RunModel(u.Cfg, u.Ops, nil)
		mm, judged := CompareHistory(u, exp, skipTainted)
		c.Add("ops_judged", judged)
		c.Add("ops_total", len(u.Ops))
		for _, r := range u.Results {
			c.Add("events_observed", len(r.Events))
			if r.Val != nil {
				c.Add("values_described", 1)
			}
		}
		c.Eval(filesKey(u), judged >= 4 && nontrivial(u.Cfg))
		if len(c.Samples) < 3 && judged > 6 {
			c.Sample(map[string]any{"files": u.Files, "ops": len(u.Ops), "ops_judged": judged})
		}
		for _, m := range mm {
			files := unitFiles(u)
			files["mismatch.txt"] = m.Text
			c.Violate(m.Kind+":"+u.Ops[m.Op].Op, fmt.Sprintf("unit %s: %s", u.ID, m.Text), files)
		}
		for i, e := range exp {
			if !e.Judged && e.Why != "" && !strings.HasPrefix(e.Why, "model diverged") {
				c.Add("ops_unjudged:"+firstWords(e.Why, 6), 1)
				_ = i
			}
		}
	}
	return nil
}

// pipedUnits: every twelfth unit gets its last input through a named pipe this process feeds in pieces (next to at least one
// regular file), the way `generator | gontainer build -i base.yaml -i /dev/stdin` delivers it.
func pipedUnits(c *Ctx, units []*probe.Unit) {
	for i, u := range units {
		if i%12 != 1 || u.Prior != nil || u.Stub || len(u.Files) == 0 || len(u.Piped) > 0 {
			continue
		}
		if len(u.Files) == 1 && u.Patterns == nil {
			u.Files = append([]probe.File{{Name: "a0-base.yaml", Content: "services: {}\n"}}, u.Files...)
		}
		if len(u.Files) < 2 {
			continue
		}
		u.Piped = []int{len(u.Files) - 1}
		c.Add("units_with_an_input_read_from_a_pipe", 1)
	}
}

var samePkgName = strings.NewReplacer("fixt/deep/pa", "fixt/pa", "fixt/pa", "fixt/deep/pa", "aaa.test/lib", "zzz.test/lib", "zzz.test/lib", "aaa.test/lib")

// priorUnits: for a sixth of the units the output path already holds what the tool generated a moment ago - for a small unrelated
// configuration, or for the unit's own files with every import path replaced by that of the other fixture package with the same last
// element (the generated code differs in the import block only). The inputs of the run that counts are older than that file. The run
// that counts is judged as always: verdict, compilation, behaviour of the container.
func priorUnits(c *Ctx, units []*probe.Unit) {
	for i, u := range units {
		if u.Prior != nil || u.Previous != "" || u.Stub {
			continue
		}
		switch i % 12 {
		case 4:
			u.Prior = &probe.Prior{Files: []probe.File{{Name: "earlier.yaml", Content: cli.EarlierConfig}}, Patterns: []string{"earlier.yaml"}}
			c.Add("units_generated_over_an_earlier_output:unrelated", 1)
		case 7:
			p := &probe.Prior{Patterns: u.Patterns, Flags: u.Flags}
			changed := false
			for _, f := range u.Files {
				t := samePkgName.Replace(f.Content)
				changed = changed || t != f.Content
				p.Files = append(p.Files, probe.File{Name: f.Name, Content: t})
			}
			if p.Patterns == nil {
				for _, f := range u.Files {
					p.Patterns = append(p.Patterns, f.Name)
				}
			}
			if changed {
				u.Prior = p
				c.Add("units_generated_over_an_earlier_output:same-configuration-other-packages", 1)
			}
		}
	}
}

func firstWords(s string, n int) string {
	w := strings.Fields(s)
	if len(w) > n {
		w = w[:n]
	}
	return strings.Join(w, " ")
}

func init() {
	Register("C02", "exploration", func(c *Ctx) error {
		c.Rule = "seeded random configurations over creation method x argument form x position x fields x calls/withers x receiver kind x scope x getter, generated through the real binary, compiled against the pinned runtime and executed; every service fetched; object graphs compared with the reference container up to instance renaming. distinct = distinct YAML text; non-trivial = at least 4 probe operations judged and the configuration has a service with >=1 argument, field or call"
		c.Assumptions = []string{"the fixture universe stands in for user code", "the reference container (engine/ref) is a faithful reading of docs/*.md and of the pinned runtime's documented behaviour", "configurations whose generated code does not compile are C01's business and are skipped here (counted)"}
		n := c.Pick(800, 10000)
		if err := behaviourCheck(c, n, func(r *rand.Rand, i int) (*cfg.Config, []probe.Op) {
			o := gen.DefaultOpts()
			conf := gen.Behaviour(r, o)
			return conf, StdOps(conf, r, false)
		}, func(conf *cfg.Config) bool {
			for _, s := range conf.Services {
				if len(s.Args)+len(s.Fields)+len(s.Calls) > 0 {
					return true
				}
			}
			return false
		}, false); err != nil {
			return err
		}
		// symbols of the configuration's own package that are spelled like locals of the generated code
		lab, err := probe.NewLab(c.W)
		if err != nil {
			return err
		}
		units, twins, labels := shadowUnits()
		if err := runUnits(c, lab, units, false); err != nil {
			return err
		}
		judgeShadowUnits(c, units, twins, labels)
		return nil
	})
}

var _ = ref.JSON

// NewLabOnlyMod initialises the probe module (fixtures, canary) without running anything.
func NewLabOnlyMod(c *Ctx) (*probe.Lab, error) { return probe.NewLab(c.W) }

// sugarUnits re-spells the files of every sixth unit with anchors/aliases, merge keys, explicit tags and block
// scalars (equivalence validated by decoding both texts): what the container does is a property of the YAML
// document, not of its spelling.
func sugarUnits(c *Ctx, units []*probe.Unit) {
	for i, u := range units {
		if len(u.Files) > 0 {
			switch i % 18 {
			case 9:
				// the last file saved in another encoding YAML allows (UTF-8 with BOM, UTF-16 LE/BE)
				j := len(u.Files) - 1
				if b, ok := ysugar.Recode(u.Files[j].Content, i/18); ok {
					u.Files[j].Content = string(b)
					c.Add("files_saved_as_utf8_bom_or_utf16", 1)
				}
			case 15:
				// explicit document markers around the one document of a file; a trailing `---` opens a second, empty document
				j := (i / 18) % len(u.Files)
				if y, ok := ysugar.Markers(u.Files[j].Content, i/18); ok {
					u.Files[j].Content = y
					c.Add("files_with_document_markers", 1)
				}
			}
		}
		if i%6 != 5 {
			continue
		}
		rs := rand.New(rand.NewSource(c.Seed*7919 + int64(i)))
		for j := range u.Files {
			if y, st, ok := ysugar.Sugar(rs, u.Files[j].Content, 1); ok && st.Any() {
				u.Files[j].Content = y
				c.Add("files_with_anchors_or_merge_keys", 1)
			}
		}
	}
}

// shadowNames: symbols of the configuration's own package that are spelled like local variables of the generated
// constructor function, by the role the fixture packages give them.
var shadowNames = map[string][]string{
	"constructor": {"newService", "c", "getParam", "dependencyService", "rootGontainer"},
	"decorator":   {"s", "dependencyValue", "callProvider", "dependencyTag"},
	"function":    {"getEnv", "getEnvInt", "paramTodo", "concatenateChunks", "dependencyProvider"},
	"type":        {"ctx", "err", "result", "service", "ok"},
}

// shadowUnits builds, for every such name, a small configuration that uses it (unqualified, i.e. from the current package) and
// the twin that uses the canonical fixture symbol; both must behave the same.
func shadowUnits() (units []*probe.Unit, twins []*cfg.Config, labels []string) {
	canon := map[string]string{"constructor": "New", "decorator": "DecSame", "function": "Fn", "type": "Obj"}
	mk := func(role, name string) *cfg.Config {
		conf := &cfg.Config{Meta: cfg.Meta{Pkg: cfg.P("gen")}}
		ctor, dec, fn, typ := "New", "DecSame", "Fn", "Obj"
		switch role {
		case "type":
			typ = name
		case "constructor":
			ctor = name
		case "decorator":
			dec = name
		case "function":
			fn = name
		}
		conf.Meta.Functions = []cfg.KS{{K: "f", V: fn}}
		conf.Params = []cfg.KV{{K: "p", V: cfg.Str(`%f(1, "a")%`)}, {K: "q", V: cfg.Str(`x-%f(2)%`)}}
		conf.Services = []cfg.Service{
			{Name: "a", Constructor: cfg.P(ctor), Args: []cfg.Val{cfg.Str("%p%"), cfg.Int(7)}, Tags: []cfg.Tag{{Name: "t"}}},
			{Name: "b", Constructor: cfg.P(ctor), Args: []cfg.Val{cfg.Str("@a"), cfg.Str("%q%")}},
			{Name: "noargs", Constructor: cfg.P(ctor)},
			{Name: "typed", Constructor: cfg.P(ctor), Type: cfg.P("*" + typ), Getter: cfg.P("GetTyped"), MustGetter: cfg.P(true)},
		}
		conf.Decorators = []cfg.Decorator{{Tag: "t", Decorator: dec, Args: []cfg.Val{cfg.Int(1)}}}
		return conf
	}
	i := 0
	for _, role := range []string{"constructor", "decorator", "function", "type"} {
		for _, name := range shadowNames[role] {
			conf := mk(role, name)
			ops := []probe.Op{{Op: "new"}, {Op: "param", Name: "p"}, {Op: "param", Name: "q"}, {Op: "get", Name: "a"}, {Op: "get", Name: "b"}, {Op: "get", Name: "noargs"}, {Op: "tagged", Name: "t"},
				{Op: "getter", Name: "GetTyped"}, {Op: "getterctx", Name: "GetTypedInContext", Ctx: 1}, {Op: "getter", Name: "MustGetTyped"}, {Op: "getterctx", Name: "MustGetTypedInContext", Ctx: 2}}
			units = append(units, &probe.Unit{ID: fmt.Sprintf("h%04d", i), Cfg: conf, Files: []probe.File{{Name: "gontainer.yaml", Content: conf.YAML()}}, Ops: ops})
			twins = append(twins, mk(role, canon[role]))
			labels = append(labels, role+":"+name)
			i++
		}
	}
	return
}

// judgeShadowUnits compares each unit with the reference run of its canonical twin.
func judgeShadowUnits(c *Ctx, units []*probe.Unit, twins []*cfg.Config, labels []string) {
	for k, u := range units {
		c.Add("own_package_symbols_named_like_generated_locals", 1)
		files := unitFiles(u)
		sig := "own-package-symbol-shadowed-by-generated-local:" + labels[k]
		if !u.Accepted {
			c.Violate(sig, fmt.Sprintf("a configuration naming the symbol %s of its own package is rejected: %s", labels[k], rejectReason(u)), files)
			continue
		}
		c.Eval("shadow:"+labels[k], true)
		if !u.Compiled {
			c.Violate(sig, fmt.Sprintf("%s: the generated code does not compile:\n%s", labels[k], firstLines(u.CompileErr, 8)), files)
			continue
		}
		if len(u.Results) == 0 {
			c.Violate(sig, fmt.Sprintf("%s: %s", labels[k], u.ProbeErr), files)
			continue
		}
		exp := RunModel(twins[k], u.Ops, nil)
		mm, _ := CompareHistory(u, exp, false)
		if len(mm) > 0 {
			files["mismatch.txt"] = mm[0].Text
			c.Violate(sig, fmt.Sprintf("the symbol %s of the configuration's own package (role %s) is not what the generated container uses: a local variable of the generated code with the same name shadows it\n%s", strings.SplitN(labels[k], ":", 2)[1], strings.SplitN(labels[k], ":", 2)[0], mm[0].Text), files)
		}
	}
}

// rejected handles a generated configuration that the tool rejects. The generators only emit configurations inside the documented
// language and inside each property's proviso, and the property at hand promises a behaviour of the generated container for
// them; a tool that refuses such a configuration delivers none of it, so this is reported as a violation of the property whose
// workload it is (the same holds for generated code that cannot be built or started).
func rejected(c *Ctx, reason, what string, files map[string]string) {
	c.Violate("generator-config-rejected:"+sigWords(reason), what, files)
}

// runtimeDecoratorOps lets the application register one more decorator (AddDecorator is part of the generated container's
// interface) right after the container was built: for a tag some services carry, with a dependency on a service that is, or
// reaches, a contextual one. "No declared scope" is resolved over the dependencies the container has when the service is
// requested, so every service carrying the tag - and whatever depends on them - is contextual from then on. Nothing is added
// where the new edge would close a cycle or put a declared-shared service above a contextual one.
func runtimeDecoratorOps(conf *cfg.Config, ops []probe.Op, r *rand.Rand) ([]probe.Op, bool) {
	g := ref.BuildGraph(conf)
	if len(ref.ScopeErrors(conf, g)) > 0 {
		return ops, false
	}
	reach := func(from string) map[string]bool {
		seen := map[string]bool{from: true}
		var walk func(n string)
		walk = func(n string) {
			for t := range g.SvcEdges[n] {
				if !seen[t] {
					seen[t] = true
					walk(t)
				}
			}
		}
		walk(from)
		return seen
	}
	declared := map[string]string{}
	for _, s := range conf.Services {
		if s.Scope != nil && !s.IsTodo() {
			declared[s.Name] = *s.Scope
		}
	}
	var tags []string
	carriers := map[string][]string{}
	for _, s := range conf.Services {
		if s.IsTodo() {
			continue
		}
		for _, t := range s.Tags {
			if len(carriers[t.Name]) == 0 {
				tags = append(tags, t.Name)
			}
			carriers[t.Name] = append(carriers[t.Name], s.Name)
		}
	}
	sort.Strings(tags)
	var srcs []string
	for _, s := range conf.Services {
		if s.IsTodo() {
			continue
		}
		for n := range reach(s.Name) {
			if declared[n] == "contextual" {
				srcs = append(srcs, s.Name)
				break
			}
		}
	}
	if len(tags) == 0 || len(srcs) == 0 {
		return ops, false
	}
	r.Shuffle(len(tags), func(i, j int) { tags[i], tags[j] = tags[j], tags[i] })
	r.Shuffle(len(srcs), func(i, j int) { srcs[i], srcs[j] = srcs[j], srcs[i] })
	for _, t := range tags {
	next:
		for _, x := range srcs {
			rx := reach(x)
			for _, s := range carriers[t] {
				if rx[s] {
					continue next // would close a cycle
				}
			}
			// everything at or above a carrier of the tag becomes (or stays) dependent on a contextual service
			for _, s := range conf.Services {
				if declared[s.Name] != "shared" {
					continue
				}
				rs := reach(s.Name)
				for _, cs := range carriers[t] {
					if rs[cs] {
						continue next
					}
				}
			}
			add := probe.Op{Op: "adddecorator", Name: t, Ctor: []string{"fixt/pa.DecSame", "fixt/pb.Dec"}[r.Intn(2)], Deps: []probe.DepSpec{{Dep: "value", T: "string", V: "rt-dec"}, {Dep: "service", Name: x}}}
			var out []probe.Op
			done := false
			for _, op := range ops {
				out = append(out, op)
				if op.Op == "new" && !done {
					out = append(out, add)
					done = true
				}
			}
			if !done {
				return ops, false
			}
			for _, cs := range carriers[t] {
				out = append(out, probe.Op{Op: "get", Name: cs}, probe.Op{Op: "get", Name: cs}, probe.Op{Op: "getctx", Name: cs, Ctx: 1}, probe.Op{Op: "getctx", Name: cs, Ctx: 1},
					probe.Op{Op: "getctx", Name: cs, Ctx: 2}, probe.Op{Op: "getctx", Name: x, Ctx: 1}, probe.Op{Op: "getctx", Name: x, Ctx: 2})
			}
			out = append(out, probe.Op{Op: "tagged", Name: t}, probe.Op{Op: "taggedctx", Name: t, Ctx: 1}, probe.Op{Op: "taggedctx", Name: t, Ctx: 2})
			return out, true
		}
	}
	return ops, false
}
